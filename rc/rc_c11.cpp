// C11(c): every value type the binary stream accepts is read back exactly as written; a truncated buffer
// makes the read that crosses the cut fail without touching memory out of bounds.
#include "rc_common.h"
#include "colvars_memstream.h"
#include "colvarvalue.h"
#include <memory>
#include <cstring>

struct Item {
  int kind;
  bool b; char c; int i; long long ll; size_t sz; float f; double d;
  std::string s;
  std::vector<int> vi; std::vector<double> vd; std::vector<float> vf; std::vector<char> vc;
  std::vector<size_t> vs; std::vector<long long> vll;
  cvm::vector1d<cvm::real> v1;
  colvarvalue cv;
};

static double anyDouble()
{
  int k = *genInt(0, 9);
  if (k == 0) return 0.0;
  if (k == 1) return -0.0;
  if (k == 2) return 1e300;
  if (k == 3) return 4.9e-324;
  return *genReal(-1e6, 1e6);
}

template <typename T> static bool same_bits(T const &a, T const &b) { return std::memcmp(&a, &b, sizeof(T)) == 0; }
template <typename T> static bool same_vec(std::vector<T> const &a, std::vector<T> const &b)
{
  return a.size() == b.size() && (a.empty() || std::memcmp(a.data(), b.data(), a.size() * sizeof(T)) == 0);
}

static Item genItem()
{
  Item it;
  it.kind = *genInt(0, 19);
  int n = *genInt(0, 6);
  if (*genInt(0, 20) == 0) n = *genInt(100, 3000);
  switch (it.kind) {
  case 0: it.b = *genInt(0, 1); break;
  case 1: it.c = (char)*genInt(-128, 127); break;
  case 2: it.i = *genInt(-2000000000, 2000000000); break;
  case 3: it.ll = ((long long)*genInt(-2000000000, 2000000000)) * 1000003LL + *genInt(0, 1000); break;
  case 4: it.sz = ((size_t)*genInt(0, 2000000000)) * 4000000007ULL + *genInt(0, 1000); break;
  case 5: it.f = (float)anyDouble(); break;
  case 6: it.d = anyDouble(); break;
  case 7: it.s.clear(); for (int k = 0; k < n; k++) it.s.push_back((char)*genInt(0, 255)); break;
  case 8: for (int k = 0; k < n; k++) it.vi.push_back(*genInt(-1000000, 1000000)); break;
  case 9: for (int k = 0; k < n; k++) it.vd.push_back(anyDouble()); break;
  case 10: for (int k = 0; k < n; k++) it.vf.push_back((float)anyDouble()); break;
  case 11: for (int k = 0; k < n; k++) it.vc.push_back((char)*genInt(-128, 127)); break;
  case 12: for (int k = 0; k < n; k++) it.vs.push_back((size_t)*genInt(0, 2000000000)); break;
  case 13: for (int k = 0; k < n; k++) it.vll.push_back((long long)*genInt(-2000000000, 2000000000) * 77LL); break;
  case 14: it.v1.resize(n); for (int k = 0; k < n; k++) it.v1[k] = anyDouble(); break;
  case 15: it.cv = colvarvalue(anyDouble()); break;
  case 16: it.cv = colvarvalue(cvm::rvector(anyDouble(), anyDouble(), anyDouble()), colvarvalue::type_3vector); break;
  case 17: {
    cvm::rvector v(*genReal(-1, 1), *genReal(-1, 1), *genReal(0.1, 1));
    it.cv = colvarvalue(v.unit(), colvarvalue::type_unit3vector);
    break;
  }
  case 18: {
    cvm::quaternion q(*genReal(-1, 1), *genReal(-1, 1), *genReal(0.1, 1), *genReal(-1, 1));
    q /= q.norm();
    it.cv = colvarvalue(q);
    break;
  }
  default: {
    int m = std::max(1, n);
    cvm::vector1d<cvm::real> a(m);
    for (int k = 0; k < m; k++) a[k] = anyDouble();
    it.cv = colvarvalue(a, colvarvalue::type_vector);
  }
  }
  return it;
}

static void writeItem(cvm::memory_stream &os, Item const &it)
{
  switch (it.kind) {
  case 0: os << it.b; break;
  case 1: os << it.c; break;
  case 2: os << it.i; break;
  case 3: os << it.ll; break;
  case 4: os << it.sz; break;
  case 5: os << it.f; break;
  case 6: os << it.d; break;
  case 7: os << it.s; break;
  case 8: os << it.vi; break;
  case 9: os << it.vd; break;
  case 10: os << it.vf; break;
  case 11: os << it.vc; break;
  case 12: os << it.vs; break;
  case 13: os << it.vll; break;
  case 14: os << it.v1; break;
  default: os << it.cv; break;
  }
}

// reads an item of the same kind into 'out'; returns stream state
static bool readItem(cvm::memory_stream &is, Item const &proto, Item &out)
{
  out.kind = proto.kind;
  switch (proto.kind) {
  case 0: is >> out.b; break;
  case 1: is >> out.c; break;
  case 2: is >> out.i; break;
  case 3: is >> out.ll; break;
  case 4: is >> out.sz; break;
  case 5: is >> out.f; break;
  case 6: is >> out.d; break;
  case 7: is >> out.s; break;
  case 8: is >> out.vi; break;
  case 9: is >> out.vd; break;
  case 10: is >> out.vf; break;
  case 11: is >> out.vc; break;
  case 12: is >> out.vs; break;
  case 13: is >> out.vll; break;
  case 14: out.v1.resize(proto.v1.size()); is >> out.v1; break;
  default: out.cv.type(proto.cv); is >> out.cv; break;
  }
  return bool(is);
}

static bool equalItem(Item const &a, Item const &b)
{
  switch (a.kind) {
  case 0: return a.b == b.b;
  case 1: return a.c == b.c;
  case 2: return a.i == b.i;
  case 3: return a.ll == b.ll;
  case 4: return a.sz == b.sz;
  case 5: return same_bits(a.f, b.f);
  case 6: return same_bits(a.d, b.d);
  case 7: return a.s == b.s;
  case 8: return same_vec(a.vi, b.vi);
  case 9: return same_vec(a.vd, b.vd);
  case 10: return same_vec(a.vf, b.vf);
  case 11: return same_vec(a.vc, b.vc);
  case 12: return same_vec(a.vs, b.vs);
  case 13: return same_vec(a.vll, b.vll);
  case 14: return same_vec(a.v1.data_array(), b.v1.data_array());
  default: {
    if (a.cv.type() != b.cv.type() || a.cv.size() != b.cv.size()) return false;
    cvm::vector1d<cvm::real> x = a.cv.as_vector(), y = b.cv.as_vector();
    // unit vectors and quaternions are re-normalised on reading: allow a few ulp there, exact otherwise
    bool manifold = (a.cv.type() == colvarvalue::type_unit3vector || a.cv.type() == colvarvalue::type_quaternion);
    for (size_t k = 0; k < x.size(); k++) {
      if (manifold) { if (std::fabs(x[k] - y[k]) > 4e-16) return false; }
      else if (!same_bits(x[k], y[k])) return false;
    }
    return true;
  }
  }
}

int main(int argc, char **argv)
{
  char const *out = argc > 1 ? argv[1] : "/dev/null";
  std::unique_ptr<vproxy> px(new_module());
  bool ok = true;

  ok &= rc::check("memory_stream round trip of generated value sequences; truncated buffers fail", [&]() {
    int const n = *genInt(1, 12);
    std::vector<Item> items;
    for (int k = 0; k < n; k++) items.push_back(genItem());
    cvm::memory_stream os;
    std::vector<size_t> ends;
    bool smallelem = false;
    for (auto const &it : items) {
      writeItem(os, it);
      RC_ASSERT(bool(os));
      ends.push_back(os.length());
      if (it.kind == 8 || it.kind == 10 || it.kind == 11) smallelem = true;
    }
    std::string kinds;
    for (auto const &it : items) kinds += std::to_string(it.kind) + ",";
    RC_LOG() << "kinds: " << kinds << " total length " << os.length();
    // expected encoded length (documented layout: raw bytes; size_t length prefix for strings and vectors)
    {
      cvm::memory_stream is(os.length(), os.output_buffer());
      size_t idx = 0;
      for (auto const &it : items) {
        Item got;
        bool good = readItem(is, it, got);
        RC_LOG() << "item " << idx << " kind " << it.kind << " good=" << good << " pos=" << is.tellg();
        RC_ASSERT(good);
        RC_ASSERT(equalItem(it, got));
        idx++;
      }
      RC_ASSERT(is.tellg() == os.length());
    }
    // truncated copy: the first item that is not completely inside the buffer must fail when read
    size_t const cut = (size_t)*genInt(0, (int)std::min<size_t>(os.length() ? os.length() - 1 : 0, 2000000000));
    {
      std::vector<unsigned char> copy(os.output_buffer(), os.output_buffer() + cut);
      cvm::memory_stream is(copy.size(), copy.data());
      size_t idx = 0;
      for (auto const &it : items) {
        Item got;
        bool good = readItem(is, it, got);
        if (ends[idx] <= cut) {
          RC_ASSERT(good);
          RC_ASSERT(equalItem(it, got));
        } else {
          RC_LOG() << "truncated at " << cut << ": item " << idx << " kind " << it.kind << " ends at " << ends[idx] << " good=" << good;
          RC_ASSERT(!good);
          break;
        }
        idx++;
      }
    }
    CNT.hit("stream.cases");
    if (smallelem) CNT.hit("stream.nontrivial_small_elements");
    CNT.hit("stream.items", n);
    for (auto const &it : items) CNT.hit("kind" + std::to_string(it.kind));
    if (CNT.c["stream.cases"] % 2003 == 1) CNT.sample("kinds=" + kinds + " bytes=" + std::to_string(os.length()) + " cut=" + std::to_string(cut));
  });

  CNT.dump(out);
  return ok ? 0 : 1;
}
