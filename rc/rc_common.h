// Shared helpers for rapidcheck targets: counters dumped as JSON, real-number generators, module set-up.
#ifndef RC_COMMON_H
#define RC_COMMON_H
#include <rapidcheck.h>
#include <map>
#include <string>
#include <vector>
#include <cstdio>
#include <cmath>
#include <sstream>
#include "vproxy.h"
#include "colvar.h"
#include "colvarbias.h"

struct Counters {
  std::map<std::string, long> c;
  std::vector<std::string> samples;
  void hit(std::string const &k, long n = 1) { c[k] += n; }
  void sample(std::string const &s) { if (samples.size() < 5) samples.push_back(s); }
  void dump(char const *path) {
    FILE *f = fopen(path, "w");
    if (!f) return;
    fprintf(f, "{\"counters\":{");
    bool first = true;
    for (auto const &kv : c) {
      fprintf(f, "%s\"%s\":%ld", first ? "" : ",", kv.first.c_str(), kv.second);
      first = false;
    }
    fprintf(f, "},\"samples\":[");
    for (size_t i = 0; i < samples.size(); i++) {
      std::string e;
      for (char ch : samples[i]) { if (ch == '"' || ch == '\\') e += '\\'; if (ch == '\n') { e += "\\n"; continue; } e += ch; }
      fprintf(f, "%s\"%s\"", i ? "," : "", e.c_str());
    }
    fprintf(f, "]}\n");
    fclose(f);
  }
};

static Counters CNT;

// uniform-ish real in [lo, hi] with 2^30 resolution, insensitive to rapidcheck's size parameter
inline rc::Gen<double> genReal(double lo, double hi) {
  return rc::gen::map(rc::gen::resize(1000, rc::gen::inRange<long>(0, (1L << 30) + 1)),
                      [lo, hi](long k) { return lo + (hi - lo) * (double(k) / double(1L << 30)); });
}
inline rc::Gen<int> genInt(int lo, int hi) { return rc::gen::resize(1000, rc::gen::inRange<int>(lo, hi + 1)); }

inline std::string dstr(double v) { char b[40]; snprintf(b, sizeof(b), "%.17g", v); return b; }

inline vproxy *new_module(int natoms = 8) {
  vproxy::params P;
  P.natoms = natoms;
  vproxy *p = new vproxy(P);
  for (int i = 0; i < natoms; i++) p->pos[i] = cvm::rvector(1.3 * i + 0.1 * (i % 3), 0.7 * (i % 2) + 0.05 * i, 0.4 * (i % 3) - 0.02 * i * i);
  return p;
}

#endif
