// C16: PMF integration solves the stated discrete problem; incremental divergence equals batch divergence.
// rapidcheck, direct API on integrate_potential (a derived class may read the protected divergence array).
#include "rc_common.h"
#include "colvargrid.h"
#include <memory>
#include <sstream>
#include <numeric>

struct Dim { double lower, width; int n; bool periodic; };

static std::string var_cfg(int i, Dim const &d)
{
  std::ostringstream o;
  double upper = d.lower + d.n * d.width;
  o << "colvar {\n name z" << i << "\n width " << dstr(d.width) << "\n lowerBoundary " << dstr(d.lower) << "\n upperBoundary " << dstr(upper)
    << "\n distanceZ {\n";
  if (d.periodic) o << " period " << dstr(upper - d.lower) << "\n wrapAround " << dstr(0.5 * (upper + d.lower)) << "\n";
  o << " main { atomNumbers " << (i + 1) << " }\n ref { dummyAtom (0,0,0) }\n }\n}\n";
  return o.str();
}

struct pmf_access : public integrate_potential {
  pmf_access(std::vector<colvar *> &cvs, std::shared_ptr<colvar_grid_gradient> g) : integrate_potential(cvs, g) {}
  std::vector<cvm::real> const &div() const { return divergence; }
  std::vector<cvm::real> const &sol() const { return data; }
};

struct Setup {
  std::unique_ptr<vproxy> px;
  std::vector<colvar *> cvs;
  std::shared_ptr<colvar_grid_count> counts;
  std::shared_ptr<colvar_grid_gradient> grad;
  std::vector<Dim> dims;
  int nd;
};

static Setup make(std::vector<Dim> const &dims)
{
  Setup s;
  s.dims = dims;
  s.nd = dims.size();
  s.px.reset(new_module());
  std::string cfg;
  for (int i = 0; i < s.nd; i++) cfg += var_cfg(i, dims[i]);
  if (s.px->colvars->read_config_string(cfg) != 0) throw std::runtime_error("config rejected");
  s.cvs = *(s.px->colvars->variables());
  s.counts.reset(new colvar_grid_count(s.cvs));
  s.grad.reset(new colvar_grid_gradient(s.cvs, s.counts));
  return s;
}

// gradient (mean) at bin 'b', zero outside a non-periodic range (as the documented problem treats missing data)
static bool bin_grad(Setup &s, std::vector<int> b, double *g)
{
  for (int d = 0; d < s.nd; d++) {
    if (s.dims[d].periodic) b[d] = ((b[d] % s.dims[d].n) + s.dims[d].n) % s.dims[d].n;
    else if (b[d] < 0 || b[d] >= s.dims[d].n) { for (int k = 0; k < s.nd; k++) g[k] = 0.0; return false; }
  }
  size_t const c = s.counts->value(b);
  for (int k = 0; k < s.nd; k++) g[k] = c ? s.grad->value(b, k) / double(c) : 0.0;
  return true;
}

int main(int argc, char **argv)
{
  char const *out = argc > 1 ? argv[1] : "/dev/null";
  bool ok = true;

  // ---- 1-D: cumulative sum ---------------------------------------------------------------------------------
  ok &= rc::check("1-D: the surface is the cumulative sum of the mean gradients times the width (mean removed if periodic)", [&]() {
    Dim d{std::round(*genReal(-5, 5) * 4) / 4, std::vector<double>{0.1, 0.25, 0.5, 1.0}[*genInt(0, 3)], *genInt(2, 30), *genInt(0, 1) == 1};
    Setup s = make({d});
    std::vector<double> mean(d.n);
    bool unsampled = false;
    for (int i = 0; i < d.n; i++) {
      int c = *genInt(0, 6);
      mean[i] = (c == 0) ? 0.0 : *genReal(-5, 5);      // a bin never visited holds no gradient
      if (c == 0) unsampled = true;
      std::vector<int> ix{i};
      for (int k = 0; k < c; k++) { double f = -mean[i]; s.grad->acc_force(ix, &f); }
    }
    pmf_access pmf(s.cvs, s.grad);
    double err;
    pmf.integrate(100, 1e-8, err, false);
    double corr = 0;
    if (d.periodic) corr = std::accumulate(mean.begin(), mean.end(), 0.0) / d.n;
    double sum = 0;
    size_t const np = pmf.sol().size();
    RC_ASSERT(np == size_t(d.periodic ? d.n : d.n + 1));
    for (size_t i = 0; i < np; i++) {
      RC_LOG() << "node " << i << " value " << dstr(pmf.sol()[i]) << " expected " << dstr(sum) << "\n";
      RC_ASSERT(std::fabs(pmf.sol()[i] - sum) <= 1e-12 * std::max(1.0, std::fabs(sum)) + 1e-13 * d.n);
      if (i < size_t(d.n)) sum += (mean[i] - corr) * d.width;
    }
    if (d.periodic) RC_ASSERT(std::fabs(sum) <= 1e-10 * d.n);
    CNT.hit("oned.cases");
    CNT.hit(d.periodic ? "oned.periodic" : "oned.open");
    if (d.periodic && unsampled) CNT.hit("oned.periodic_unsampled");
    CNT.hit("oned.nontrivial");
  });

  // ---- 2-D/3-D: divergence, residual, incremental == batch ---------------------------------------------------
  ok &= rc::check("2-D/3-D: divergence = node divergence of the mean gradients; solution's Laplacian = divergence; incremental = batch", [&]() {
    int const nd = *genInt(2, 3);
    std::vector<Dim> dims;
    for (int i = 0; i < nd; i++)
      dims.push_back(Dim{std::round(*genReal(-3, 3) * 4) / 4, std::vector<double>{0.25, 0.5, 1.0, 0.4}[*genInt(0, 3)], *genInt(3, nd == 2 ? 12 : 6), *genInt(0, 2) == 0});
    Setup s = make(dims);
    pmf_access pmf(s.cvs, s.grad);
    pmf.set_div();
    // arrival of samples in a generated order with repetitions; divergence kept up to date incrementally
    int const nsamples = *genInt(5, 120);
    bool repeated = false;
    std::vector<std::vector<int>> seen;
    for (int k = 0; k < nsamples; k++) {
      std::vector<int> ix(nd);
      for (int d = 0; d < nd; d++) ix[d] = *genInt(0, dims[d].n - 1);
      if (!seen.empty() && *genInt(0, 2) == 0) { ix = seen[*genInt(0, (int)seen.size() - 1)]; repeated = true; }
      seen.push_back(ix);
      double f[3] = {*genReal(-4, 4), *genReal(-4, 4), *genReal(-4, 4)};
      s.grad->acc_force(ix, f);
      pmf.update_div_neighbors(ix);
    }
    std::vector<cvm::real> incremental = pmf.div();
    pmf.set_div();
    std::vector<cvm::real> batch = pmf.div();
    RC_ASSERT(incremental.size() == batch.size());
    double scale = 1e-300;
    for (double v : batch) scale = std::max(scale, std::fabs(v));
    for (size_t i = 0; i < batch.size(); i++) {
      RC_LOG() << (std::fabs(incremental[i] - batch[i]) > 1e-12 * scale ? "divergence node " + std::to_string(i) + ": incremental " + dstr(incremental[i]) + " batch " + dstr(batch[i]) + "\n" : "");
      RC_ASSERT(std::fabs(incremental[i] - batch[i]) <= 1e-12 * scale);
    }
    // own node divergence at interior / periodic nodes
    std::vector<int> const np = pmf.sizes();
    std::vector<int> ix(nd, 0);
    size_t interior = 0;
    std::vector<char> is_interior(batch.size(), 0);
    for (size_t lin = 0; lin < batch.size(); lin++) {
      // decode row-major index
      size_t r = lin;
      for (int d = nd - 1; d >= 0; d--) { ix[d] = r % np[d]; r /= np[d]; }
      bool inner = true;
      for (int d = 0; d < nd; d++) if (!dims[d].periodic && (ix[d] < 1 || ix[d] > dims[d].n - 1)) inner = false;
      if (!inner) continue;
      double div = 0;
      int const ncorner = 1 << nd;
      std::vector<std::vector<double>> g(ncorner, std::vector<double>(3, 0.0));
      for (int c = 0; c < ncorner; c++) {
        std::vector<int> b(nd);
        for (int d = 0; d < nd; d++) b[d] = ix[d] - 1 + ((c >> d) & 1);
        bin_grad(s, b, g[c].data());
      }
      for (int d = 0; d < nd; d++) {
        double acc = 0;
        for (int c = 0; c < ncorner; c++) acc += (((c >> d) & 1) ? 1.0 : -1.0) * g[c][d];
        div += acc / dims[d].width / double(1 << (nd - 1));
      }
      RC_LOG() << (std::fabs(div - batch[lin]) > 1e-11 * std::max(1.0, scale) ? "node " + std::to_string(lin) + ": stored divergence " + dstr(batch[lin]) + " own " + dstr(div) + "\n" : "");
      RC_ASSERT(std::fabs(div - batch[lin]) <= 1e-11 * std::max(1.0, scale));
      is_interior[lin] = 1;
      interior++;
    }
    // solve and check the residual of the standard 5-/7-point Laplacian at interior nodes
    double err = 0;
    int const itmax = 20000;
    double const tol = 1e-10;
    int iters = pmf.integrate(itmax, tol, err, false);
    if (iters < itmax) {
      std::vector<cvm::real> const &A = pmf.sol();
      std::vector<size_t> stride(nd);
      size_t st = 1;
      for (int d = nd - 1; d >= 0; d--) { stride[d] = st; st *= np[d]; }
      double res2 = 0, div2 = 0;
      for (double v : batch) div2 += v * v;
      for (size_t lin = 0; lin < batch.size(); lin++) {
        if (!is_interior[lin]) continue;
        size_t r = lin;
        for (int d = nd - 1; d >= 0; d--) { ix[d] = r % np[d]; r /= np[d]; }
        double lap = 0;
        for (int d = 0; d < nd; d++) {
          int ip = ix[d] + 1, im = ix[d] - 1;
          if (dims[d].periodic) { ip = (ip + np[d]) % np[d]; im = (im + np[d]) % np[d]; }
          size_t lp = lin + (ip - ix[d]) * (long)stride[d], lm = lin + (im - ix[d]) * (long)stride[d];
          lap += (A[lp] - 2 * A[lin] + A[lm]) / (dims[d].width * dims[d].width);
        }
        res2 += (lap - batch[lin]) * (lap - batch[lin]);
      }
      RC_LOG() << "iterations " << iters << " reported err " << dstr(err) << " interior residual " << dstr(std::sqrt(res2)) << " |div| " << dstr(std::sqrt(div2)) << "\n";
      RC_ASSERT(std::sqrt(res2) <= 100 * tol * std::max(std::sqrt(div2), 1e-12) + 1e-9);
      CNT.hit("nd.converged");
    } else {
      CNT.hit("nd.not_converged");
    }
    CNT.hit("nd.cases");
    CNT.hit("nd.dim" + std::to_string(nd));
    bool anyopen = false;
    for (auto const &d : dims) anyopen = anyopen || !d.periodic;
    if (anyopen) CNT.hit("nd.has_open_dim");
    if (repeated && interior > 0) CNT.hit("nd.nontrivial");
    if (CNT.c["nd.cases"] % 211 == 1) CNT.sample("nd=" + std::to_string(nd) + " samples=" + std::to_string(nsamples) + " interior_nodes=" + std::to_string(interior));
  });

  // ---- convergence to a smooth surface at second order ---------------------------------------------------------
  ok &= rc::check("2-D: for gradients sampled from a smooth surface the solution converges to it at second order", [&]() {
    bool const px_ = *genInt(0, 1), py_ = *genInt(0, 1);
    int const n0 = *genInt(6, 10);
    double const Lx = 4.0, Ly = 4.0;
    int const kx = *genInt(1, 2), ky = *genInt(1, 2);
    double const a = *genReal(0.5, 2.0), b = *genReal(0.5, 2.0), c = *genReal(-0.5, 0.5);
    double const PI_ = 3.14159265358979323846;
    // f = a sin(2 pi kx x/Lx) cos(2 pi ky y/Ly) on periodic dims; plus smooth non-periodic terms where open
    auto f = [&](double x, double y) {
      double v = a * std::sin(2 * PI_ * kx * x / Lx) * std::cos(2 * PI_ * ky * y / Ly);
      if (!px_) v += b * std::exp(-0.5 * (x - 1.7) * (x - 1.7)) + c * x * x * 0.1;
      if (!py_) v += b * std::exp(-0.3 * (y - 2.2) * (y - 2.2));
      return v;
    };
    auto fx = [&](double x, double y) {
      double v = a * (2 * PI_ * kx / Lx) * std::cos(2 * PI_ * kx * x / Lx) * std::cos(2 * PI_ * ky * y / Ly);
      if (!px_) v += -b * (x - 1.7) * std::exp(-0.5 * (x - 1.7) * (x - 1.7)) + c * x * 0.2;
      return v;
    };
    auto fy = [&](double x, double y) {
      double v = -a * (2 * PI_ * ky / Ly) * std::sin(2 * PI_ * kx * x / Lx) * std::sin(2 * PI_ * ky * y / Ly);
      if (!py_) v += -0.6 * b * (y - 2.2) * std::exp(-0.3 * (y - 2.2) * (y - 2.2));
      return v;
    };
    double errs[3];
    for (int level = 0; level < 3; level++) {
      int const n = n0 << level;
      double const hx = Lx / n, hy = Ly / n;
      Setup s = make({Dim{0.0, hx, n, px_}, Dim{0.0, hy, n, py_}});
      for (int i = 0; i < n; i++) for (int j = 0; j < n; j++) {
        double x = (i + 0.5) * hx, y = (j + 0.5) * hy;
        double frc[2] = {-fx(x, y), -fy(x, y)};
        std::vector<int> ix{i, j};
        s.grad->acc_force(ix, frc);
      }
      pmf_access pmf(s.cvs, s.grad);
      pmf.set_div();
      double err;
      int it = pmf.integrate(50000, 1e-12, err, false);
      RC_ASSERT(it < 50000);
      std::vector<int> np = pmf.sizes();
      // nodes are at bin edges (x = i*hx); compare with f up to an additive constant
      double mean = 0;
      std::vector<double> diff;
      for (int i = 0; i < np[0]; i++) for (int j = 0; j < np[1]; j++) {
        double v = pmf.sol()[i * np[1] + j] - f(i * hx, j * hy);
        diff.push_back(v);
        mean += v;
      }
      mean /= diff.size();
      double e2 = 0;
      for (double v : diff) e2 += (v - mean) * (v - mean);
      errs[level] = std::sqrt(e2 / diff.size());
    }
    RC_LOG() << "periodic " << px_ << py_ << " n0 " << n0 << " errors " << dstr(errs[0]) << " " << dstr(errs[1]) << " " << dstr(errs[2]) << "\n";
    // second order: the error shrinks by ~4 per halving (allow 3.2); compare the two finest levels
    RC_ASSERT(errs[2] <= errs[1] / 3.2 + 1e-9);
    CNT.hit("conv.cases");
    CNT.hit(std::string("conv.periodic") + (px_ ? "1" : "0") + (py_ ? "1" : "0"));
    CNT.hit("conv.nontrivial");
  });

  CNT.dump(out);
  return ok ? 0 : 1;
}
