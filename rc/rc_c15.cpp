// C15(b): a grid written in multicolumn, restart (text / binary stream) or raw form and read back has the same
// sizes, boundaries, widths, periodicity flags and data.  rapidcheck, direct API on grids built through real variables.
#include "rc_common.h"
#include "colvargrid.h"
#include "colvars_memstream.h"
#include <memory>
#include <sstream>
#include <fstream>
#include <cstdlib>

struct Dim { double lower, width; int n; bool periodic; };

static std::string var_cfg(int i, Dim const &d)
{
  std::ostringstream o;
  double upper = d.lower + d.n * d.width;
  o << "colvar {\n name z" << i << "\n width " << dstr(d.width) << "\n lowerBoundary " << dstr(d.lower) << "\n upperBoundary " << dstr(upper)
    << "\n distanceZ {\n";
  if (d.periodic) o << " period " << dstr(upper - d.lower) << "\n wrapAround " << dstr(0.5 * (upper + d.lower)) << "\n";
  o << " main { atomNumbers " << (i + 1) << " }\n ref { dummyAtom (0,0,0) }\n }\n}\n";
  return o.str();
}

template <class G> static bool same_shape(G const &a, G const &b, std::string &why)
{
  if (a.sizes() != b.sizes()) { why = "sizes"; return false; }
  if (a.periodic != b.periodic) { why = "periodic flags"; return false; }
  for (size_t i = 0; i < a.widths.size(); i++) {
    if (std::fabs(a.widths[i] - b.widths[i]) > 1e-13 * std::max(1.0, std::fabs(a.widths[i]))) { why = "widths"; return false; }
    if (std::fabs(a.lower_boundaries[i].real_value - b.lower_boundaries[i].real_value) > 1e-13 * std::max(1.0, std::fabs(a.lower_boundaries[i].real_value))) { why = "lower boundaries"; return false; }
    if (std::fabs(a.upper_boundaries[i].real_value - b.upper_boundaries[i].real_value) > 1e-13 * std::max(1.0, std::fabs(a.upper_boundaries[i].real_value))) { why = "upper boundaries"; return false; }
  }
  return true;
}

template <class G> static bool same_data(G const &a, G const &b, double rtol, std::string &why)
{
  if (a.raw_data_num() != b.raw_data_num()) { why = "number of data"; return false; }
  for (size_t i = 0; i < a.raw_data_num(); i++) {
    double x = double(a.value(i)), y = double(b.value(i));
    if (std::fabs(x - y) > rtol * std::max(1.0, std::fabs(x))) {
      why = "data element " + std::to_string(i) + ": " + dstr(x) + " vs " + dstr(y);
      return false;
    }
  }
  return true;
}

int main(int argc, char **argv)
{
  char const *out = argc > 1 ? argv[1] : "/dev/null";
  bool ok = true;

  ok &= rc::check("grid files round-trip (multicol, restart text, restart binary, raw)", [&]() {
    int const nd = *genInt(1, 3);
    std::vector<Dim> dims;
    for (int i = 0; i < nd; i++) {
      Dim d;
      d.width = std::vector<double>{0.25, 0.5, 1.0, 0.1, 0.37, 2.0}[*genInt(0, 5)];
      d.lower = std::round(*genReal(-8, 8) * 4.0) / 4.0;
      d.n = *genInt(1, nd == 3 ? 5 : 9);
      d.periodic = (*genInt(0, 3) == 0);
      dims.push_back(d);
    }
    std::unique_ptr<vproxy> pg(new_module());
    std::string cfg;
    for (int i = 0; i < nd; i++) cfg += var_cfg(i, dims[i]);
    RC_ASSERT(pg->colvars->read_config_string(cfg) == 0);
    std::vector<colvar *> cvs = *(pg->colvars->variables());
    int const kind = *genInt(0, 2);   // 0 scalar, 1 count, 2 gradient (no sample grid)
    std::string shape;
    for (auto const &d : dims) shape += std::to_string(d.n) + (d.periodic ? "p" : "") + "x";
    RC_LOG() << "kind " << kind << " shape " << shape;
    std::string why;

    auto fill = [&](size_t n, bool integer) {
      std::vector<double> v(n);
      for (auto &x : v) {
        int k = *genInt(0, 9);
        x = (k == 0) ? 0.0 : (integer ? double(*genInt(0, 100000)) : *genReal(-1e3, 1e3) * std::pow(10.0, *genInt(-6, 6)));
      }
      return v;
    };

    if (kind == 0) {
      colvar_grid_scalar g(cvs), r1(cvs), r2(cvs), r3(cvs), r4(cvs);
      std::vector<double> v = fill(g.raw_data_num(), false);
      for (size_t i = 0; i < v.size(); i++) g.set_value(i, v[i]);
      {
        // a grid with a custom extent on a periodic variable is not periodic: the file must carry the grid's own flag;
        // read back through the file constructor (no variables attached), which takes everything from the header
        colvar_grid_scalar &gc = g;
        std::vector<bool> const saved_periodic = g.periodic;
        bool flipped = false;
        for (int i = 0; i < nd; i++) {
          if (dims[i].periodic && (*genInt(0, 1) == 0)) { gc.periodic[i] = false; flipped = true; }
        }
        static std::string tmpdir;
        if (tmpdir.empty()) {
          char tmpl[] = "/tmp/vf_rc15_XXXXXX";
          tmpdir = mkdtemp(tmpl);
          atexit([]() { std::string c = "rm -rf " + tmpdir; if (system(c.c_str())) {} });
        }
        std::string const path = tmpdir + "/g.dat";
        { std::ofstream os(path.c_str()); gc.write_multicol(os); }
        colvar_grid_scalar gf(path);
        RC_LOG() << " multicol file -> file constructor:";
        RC_ASSERT(gf.sizes() == gc.sizes());
        RC_ASSERT(gf.periodic == gc.periodic);
        bool d = same_data(gc, gf, 1e-13, why); RC_LOG() << why; RC_ASSERT(d);
        if (flipped) CNT.hit("files.custom_periodicity");
        g.periodic = saved_periodic;
      }
      { std::ostringstream os; g.write_multicol(os); std::istringstream is(os.str()); r1.read_multicol(is); RC_ASSERT(bool(is) || is.eof());
        RC_LOG() << " multicol:"; RC_ASSERT(same_shape(g, r1, why)); bool d = same_data(g, r1, 1e-13, why); RC_LOG() << why; RC_ASSERT(d); }
      { std::ostringstream os; os.setf(std::ios::scientific, std::ios::floatfield); os.precision(cvm::cv_prec); g.write_restart(os); std::istringstream is(os.str()); r2.read_restart(is);
        RC_LOG() << " restart:"; RC_ASSERT(same_shape(g, r2, why)); bool d = same_data(g, r2, 1e-13, why); RC_LOG() << why; RC_ASSERT(d); }
      { cvm::memory_stream os; g.write_restart(os); RC_ASSERT(bool(os)); cvm::memory_stream is(os.length(), os.output_buffer()); r3.read_restart(is);
        RC_ASSERT(bool(is)); RC_LOG() << " binary restart:"; RC_ASSERT(same_shape(g, r3, why)); bool d = same_data(g, r3, 0.0, why); RC_LOG() << why; RC_ASSERT(d); }
      { std::ostringstream os; os.setf(std::ios::scientific, std::ios::floatfield); os.precision(cvm::cv_prec); g.write_raw(os); std::istringstream is(os.str()); r4.read_raw(is);
        RC_LOG() << " raw:"; bool d = same_data(g, r4, 1e-13, why); RC_LOG() << why; RC_ASSERT(d); }
    } else if (kind == 1) {
      colvar_grid_count g(cvs), r1(cvs), r2(cvs), r3(cvs), r4(cvs);
      std::vector<double> v = fill(g.raw_data_num(), true);
      for (size_t i = 0; i < v.size(); i++) g.set_value(i, (size_t)v[i]);
      { std::ostringstream os; g.write_multicol(os); std::istringstream is(os.str()); r1.read_multicol(is);
        RC_LOG() << " multicol:"; RC_ASSERT(same_shape(g, r1, why)); bool d = same_data(g, r1, 0.0, why); RC_LOG() << why; RC_ASSERT(d); }
      { std::ostringstream os; os.setf(std::ios::scientific, std::ios::floatfield); os.precision(cvm::cv_prec); g.write_restart(os); std::istringstream is(os.str()); r2.read_restart(is);
        RC_LOG() << " restart:"; RC_ASSERT(same_shape(g, r2, why)); bool d = same_data(g, r2, 0.0, why); RC_LOG() << why; RC_ASSERT(d); }
      { cvm::memory_stream os; g.write_restart(os); cvm::memory_stream is(os.length(), os.output_buffer()); r3.read_restart(is);
        RC_ASSERT(bool(is)); RC_LOG() << " binary restart:"; RC_ASSERT(same_shape(g, r3, why)); bool d = same_data(g, r3, 0.0, why); RC_LOG() << why; RC_ASSERT(d); }
      { std::ostringstream os; os.setf(std::ios::scientific, std::ios::floatfield); os.precision(cvm::cv_prec); g.write_raw(os); std::istringstream is(os.str()); r4.read_raw(is);
        RC_LOG() << " raw:"; bool d = same_data(g, r4, 0.0, why); RC_LOG() << why; RC_ASSERT(d); }
    } else {
      colvar_grid_gradient g(cvs), r1(cvs), r2(cvs), r3(cvs), r4(cvs);
      std::vector<double> v = fill(g.raw_data_num(), false);
      for (size_t i = 0; i < v.size(); i++) g.set_value(i, v[i]);
      { std::ostringstream os; g.write_multicol(os); std::istringstream is(os.str()); r1.read_multicol(is);
        RC_LOG() << " multicol:"; RC_ASSERT(same_shape(g, r1, why)); bool d = same_data(g, r1, 1e-13, why); RC_LOG() << why; RC_ASSERT(d); }
      { std::ostringstream os; os.setf(std::ios::scientific, std::ios::floatfield); os.precision(cvm::cv_prec); g.write_restart(os); std::istringstream is(os.str()); r2.read_restart(is);
        RC_LOG() << " restart:"; RC_ASSERT(same_shape(g, r2, why)); bool d = same_data(g, r2, 1e-13, why); RC_LOG() << why; RC_ASSERT(d); }
      { cvm::memory_stream os; g.write_restart(os); cvm::memory_stream is(os.length(), os.output_buffer()); r3.read_restart(is);
        RC_ASSERT(bool(is)); RC_LOG() << " binary restart:"; RC_ASSERT(same_shape(g, r3, why)); bool d = same_data(g, r3, 0.0, why); RC_LOG() << why; RC_ASSERT(d); }
      { std::ostringstream os; os.setf(std::ios::scientific, std::ios::floatfield); os.precision(cvm::cv_prec); g.write_raw(os); std::istringstream is(os.str()); r4.read_raw(is);
        RC_LOG() << " raw:"; bool d = same_data(g, r4, 1e-13, why); RC_LOG() << why; RC_ASSERT(d); }
    }
    RC_ASSERT(cvm::get_error() == 0);
    CNT.hit("files.cases");
    CNT.hit("files.kind" + std::to_string(kind));
    CNT.hit("files.nd" + std::to_string(nd));
    bool differ = false;
    for (int i = 1; i < nd; i++) differ = differ || dims[i].n != dims[0].n;
    if (nd >= 2 && differ) CNT.hit("files.nontrivial");
    if (CNT.c["files.cases"] % 499 == 1) CNT.sample("kind=" + std::to_string(kind) + " shape=" + shape);
  });

  CNT.dump(out);
  return ok ? 0 : 1;
}
