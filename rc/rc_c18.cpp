// C18: distances, gradients and wrapping of variable values form a consistent metric.
// rapidcheck, direct API.  Usage: rc_c18 <counters.json>   (configured through RC_PARAMS)
#include "rc_common.h"
#include "colvarvalue.h"
#include <memory>

static double const PI_ = 3.14159265358979323846;

enum VT { SC, V3, U3, QT, VN };

static colvarvalue make(VT t, std::vector<double> const &v)
{
  switch (t) {
  case SC: return colvarvalue(v[0]);
  case V3: return colvarvalue(cvm::rvector(v[0], v[1], v[2]), colvarvalue::type_3vector);
  case U3: return colvarvalue(cvm::rvector(v[0], v[1], v[2]), colvarvalue::type_unit3vector);
  case QT: return colvarvalue(cvm::quaternion(v[0], v[1], v[2], v[3]));
  default: {
    cvm::vector1d<cvm::real> a(v.size());
    for (size_t i = 0; i < v.size(); i++) a[i] = v[i];
    return colvarvalue(a, colvarvalue::type_vector);
  }
  }
}

static std::vector<double> normalized(std::vector<double> v)
{
  double n = 0;
  for (double c : v) n += c * c;
  n = std::sqrt(n);
  for (double &c : v) c /= n;
  return v;
}

static size_t dim(VT t) { return t == SC ? 1 : (t == QT ? 4 : (t == VN ? 5 : 3)); }

// random on-manifold value
static std::vector<double> genValue(VT t)
{
  std::vector<double> v(dim(t));
  for (;;) {
    double n2 = 0;
    for (auto &c : v) { c = *genReal(-1.0, 1.0); n2 += c * c; }
    if (t == U3 || t == QT) {
      if (n2 < 0.01) continue;
      return normalized(v);
    }
    for (auto &c : v) c *= 10.0;
    return v;
  }
}

// second value related to the first: generic / nearly equal / equal / nearly antipodal / sign flipped
static std::vector<double> genSecond(VT t, std::vector<double> const &a, int kind)
{
  std::vector<double> b = genValue(t);
  if (kind == 1) { // nearly equal
    double eps = std::pow(10.0, *genReal(-9.0, -2.0));
    for (size_t i = 0; i < b.size(); i++) b[i] = a[i] + eps * b[i];
    if (t == U3 || t == QT) b = normalized(b);
  } else if (kind == 2) { // equal
    b = a;
  } else if (kind == 3 && (t == U3 || t == QT)) { // nearly antipodal (unit vector) / sign-flipped neighbour (quaternion)
    double eps = std::pow(10.0, *genReal(-6.0, -1.0));
    for (size_t i = 0; i < b.size(); i++) b[i] = -a[i] + eps * b[i];
    b = normalized(b);
  }
  return b;
}

static double d2(VT t, std::vector<double> const &a, std::vector<double> const &b)
{
  return make(t, a).dist2(make(t, b));
}

int main(int argc, char **argv)
{
  char const *out = argc > 1 ? argv[1] : "/dev/null";
  vproxy *px = new_module();
  bool ok = true;

  // ---- 1. metric axioms for the type-generic (non-periodic) distance -------------------------------------
  ok &= rc::check("colvarvalue::dist2 is finite, non-negative, symmetric, zero for equal values, sign-invariant", [&]() {
    VT t = VT(*genInt(0, 4));
    int kind = *genInt(0, 3);
    std::vector<double> a = genValue(t), b = genSecond(t, a, kind);
    double dab = d2(t, a, b), dba = d2(t, b, a), daa = d2(t, a, a);
    CNT.hit("metric.cases");
    CNT.hit(std::string("metric.type") + std::to_string(t) + ".kind" + std::to_string(kind));
    RC_LOG() << "type " << t << " a=";
    for (double c : a) RC_LOG() << dstr(c) << " ";
    RC_LOG() << " b=";
    for (double c : b) RC_LOG() << dstr(c) << " ";
    RC_LOG() << " d2=" << dstr(dab) << " d2(b,a)=" << dstr(dba) << " d2(a,a)=" << dstr(daa);
    RC_ASSERT(std::isfinite(dab));
    RC_ASSERT(std::isfinite(daa));
    RC_ASSERT(dab >= 0.0);
    RC_ASSERT(std::fabs(dab - dba) <= 1e-12 * std::max(1.0, dab));
    // d2(a,a) = 0 up to the rounding of acos near 1: (sqrt(2*eps))^2
    RC_ASSERT(daa <= 1e-14);
    if (t == QT) {
      std::vector<double> mb = b;
      for (double &c : mb) c = -c;
      double dm = d2(t, a, mb);
      RC_ASSERT(std::fabs(dm - dab) <= 1e-7 * std::max(1e-6, dab) + 1e-14);
      CNT.hit("metric.qflip");
    }
    if (kind == 0) {
      // inequivalent values are at positive distance
      double diff = 0;
      for (size_t i = 0; i < a.size(); i++) diff += (a[i] - b[i]) * (a[i] - b[i]);
      double sum = 0;
      for (size_t i = 0; i < a.size(); i++) sum += (a[i] + b[i]) * (a[i] + b[i]);
      double sep = (t == QT) ? std::min(diff, sum) : diff;
      if (sep > 1e-12) RC_ASSERT(dab > 0.0);
      CNT.hit("metric.nontrivial");
    }
    if (CNT.c["metric.cases"] % 997 == 1) CNT.sample("metric type=" + std::to_string(t) + " a0=" + dstr(a[0]) + " b0=" + dstr(b[0]) + " d2=" + dstr(dab));
  });

  // ---- 2. gradient = derivative with respect to the first argument, along tangent directions -------------
  ok &= rc::check("dist2_grad projected on the tangent space equals the central-difference derivative", [&]() {
    VT t = VT(*genInt(0, 4));
    int kind = *genInt(0, 1);
    std::vector<double> a = genValue(t), b = genSecond(t, a, kind);
    colvarvalue A = make(t, a), B = make(t, b);
    double dab = A.dist2(B);
    // stay away from the cut locus (antipodal unit vectors, quaternions at 90 degrees) and from a == b
    if (t == U3) { double c = 0; for (int i = 0; i < 3; i++) c += a[i] * b[i]; RC_PRE(c > -0.98 && c < 1.0 - 1e-12); }
    if (t == QT) { double c = 0; for (int i = 0; i < 4; i++) c += a[i] * b[i]; RC_PRE(std::fabs(c) > 0.02 && std::fabs(c) < 1.0 - 1e-12); }
    colvarvalue G = A.dist2_grad(B);
    std::vector<double> g(dim(t));
    if (t == SC) g[0] = G.real_value;
    else if (t == V3 || t == U3) { g[0] = G.rvector_value.x; g[1] = G.rvector_value.y; g[2] = G.rvector_value.z; }
    else if (t == QT) { g[0] = G.quaternion_value.q0; g[1] = G.quaternion_value.q1; g[2] = G.quaternion_value.q2; g[3] = G.quaternion_value.q3; }
    else for (size_t i = 0; i < g.size(); i++) g[i] = G.vector1d_value[i];
    for (int rep = 0; rep < 3; rep++) {
      std::vector<double> tdir = genValue(t == SC ? SC : (t == VN ? VN : V3));
      if (t == QT) tdir = genValue(QT);
      tdir.resize(dim(t), 0.3);
      if (t == U3 || t == QT) {
        double dot = 0;
        for (size_t i = 0; i < a.size(); i++) dot += tdir[i] * a[i];
        for (size_t i = 0; i < a.size(); i++) tdir[i] -= dot * a[i];
        double n = 0;
        for (double c : tdir) n += c * c;
        RC_PRE(n > 1e-4);
        for (double &c : tdir) c /= std::sqrt(n);
      } else {
        double n = 0;
        for (double c : tdir) n += c * c;
        RC_PRE(n > 1e-6);
        for (double &c : tdir) c /= std::sqrt(n);
      }
      double scale = std::max(1e-3, std::sqrt(dab));
      double h = 1e-4 * std::min(1.0, scale);
      auto at = [&](double e) {
        std::vector<double> p = a;
        for (size_t i = 0; i < p.size(); i++) p[i] += e * tdir[i];
        if (t == U3 || t == QT) p = normalized(p);
        return d2(t, p, b);
      };
      double D1 = (at(h) - at(-h)) / (2 * h), D2 = (at(h / 2) - at(-h / 2)) / h;
      double D = (4 * D2 - D1) / 3;
      double gt = 0;
      for (size_t i = 0; i < g.size(); i++) gt += g[i] * tdir[i];
      double tol = 1e-6 * std::max(1.0, std::fabs(gt)) + 10 * std::fabs(D2 - D1) + 1e-12 * std::max(1.0, dab) / h;
      RC_LOG() << "type " << t << " kind " << kind << " grad.t=" << dstr(gt) << " FD=" << dstr(D) << " tol=" << dstr(tol) << " d2=" << dstr(dab);
      RC_ASSERT(std::fabs(gt - D) <= tol);
    }
    CNT.hit("grad.cases");
    CNT.hit(std::string("grad.type") + std::to_string(t));
    if (dab > 1e-12) CNT.hit("grad.nontrivial");
  });

  // ---- 3. interpolation stays on the manifold and reaches both end points ----------------------------------
  ok &= rc::check("interpolate stays on the manifold and reaches both end points", [&]() {
    VT t = VT(*genInt(0, 4));
    std::vector<double> a = genValue(t), b = genSecond(t, a, *genInt(0, 1));
    if (t == U3) { double c = 0; for (int i = 0; i < 3; i++) c += a[i] * b[i]; RC_PRE(c > -0.9); }
    if (t == QT) { double c = 0; for (int i = 0; i < 4; i++) c += a[i] * b[i]; RC_PRE(c > -0.9); }
    double lam = *genReal(0.0, 1.0);
    int edge = *genInt(0, 3);
    if (edge == 0) lam = 0.0;
    if (edge == 1) lam = 1.0;
    colvarvalue A = make(t, a), B = make(t, b);
    cvm::clear_error();
    colvarvalue I = colvarvalue::interpolate(A, B, lam);
    RC_ASSERT(cvm::get_error() == 0);
    if (t == U3) RC_ASSERT(std::fabs(I.rvector_value.norm() - 1.0) < 1e-12);
    if (t == QT) RC_ASSERT(std::fabs(I.quaternion_value.norm() - 1.0) < 1e-12);
    if (lam == 0.0) RC_ASSERT(I.dist2(A) <= 1e-14);
    if (lam == 1.0) RC_ASSERT(I.dist2(B) <= 1e-14);
    double dab = A.dist2(B);
    CNT.hit("interp.cases");
    if (dab > 1e-12) CNT.hit("interp.nontrivial");
    if (edge <= 1) CNT.hit("interp.endpoint");
  });

  delete px;

  // ---- 4. periodic scalar variables: distance, gradient, wrapping through colvar:: ------------------------
  ok &= rc::check("periodic colvar::dist2/dist2_lgrad/wrap (component period and scripted period)", [&]() {
    int kind = *genInt(0, 2); // 0: dihedral (360), 1: distanceZ with period/wrapAround, 2: scripted with period/wrapAround
    double P = kind == 0 ? 360.0 : std::round(*genReal(0.5, 50.0) * 8.0) / 8.0;
    double W = kind == 0 ? 0.0 : std::round(*genReal(-2.0, 2.0) * P * 4.0) / 4.0;
    if (*genInt(0, 3) == 0) W = 0.0;
    std::unique_ptr<vproxy> pguard(new_module());
    vproxy *p = pguard.get();
    std::ostringstream cfg;
    if (kind == 0) {
      cfg << "colvar {\n name c\n dihedral {\n group1 { atomNumbers 1 }\n group2 { atomNumbers 2 }\n group3 { atomNumbers 3 }\n group4 { atomNumbers 4 }\n }\n}\n";
    } else if (kind == 1) {
      cfg << "colvar {\n name c\n distanceZ {\n period " << dstr(P) << "\n wrapAround " << dstr(W)
          << "\n main { atomNumbers 1 }\n ref { atomNumbers 2 }\n }\n}\n";
    } else {
      cfg << "colvar {\n name c\n scriptedFunction vsum\n period " << dstr(P) << "\n wrapAround " << dstr(W)
          << "\n distanceZ {\n main { atomNumbers 1 }\n ref { atomNumbers 2 }\n }\n distanceZ {\n name z2\n main { atomNumbers 3 }\n ref { atomNumbers 4 }\n }\n}\n";
    }
    int rc_cfg = p->colvars->read_config_string(cfg.str());
    RC_ASSERT(rc_cfg == 0);
    colvar *cv = cvm::colvar_by_name("c");
    RC_ASSERT(cv != nullptr);
    RC_ASSERT(cv->is_enabled(colvardeps::f_cv_periodic));
    for (int rep = 0; rep < 40; rep++) {
      double a = *genReal(W - 0.5 * P, W + 0.5 * P);
      double b;
      int rel = *genInt(0, 3);
      if (rel == 0) b = *genReal(W - 0.5 * P, W + 0.5 * P);
      else if (rel == 1) b = a + *genReal(-0.49, 0.49) * P;          // may straddle the seam
      else if (rel == 2) b = a + std::pow(10.0, *genReal(-9, -2)) * P;
      else b = a;
      int na = *genInt(-3, 3), nb = *genInt(-3, 3);
      colvarvalue A(a), B(b), A2(a + na * P), B2(b + nb * P);
      double d = cv->dist2(A, B), ds = cv->dist2(B, A), dshift = cv->dist2(A2, B2);
      double raw = a - b;
      double expect = raw - P * std::floor(raw / P + 0.5);
      RC_LOG() << "kind " << kind << " P=" << dstr(P) << " W=" << dstr(W) << " a=" << dstr(a) << " b=" << dstr(b)
               << " na=" << na << " nb=" << nb << " d2=" << dstr(d) << " shifted=" << dstr(dshift) << " expect=" << dstr(expect * expect);
      RC_ASSERT(std::isfinite(d) && d >= 0.0);
      RC_ASSERT(std::fabs(d - ds) <= 1e-9 * P * P);
      RC_ASSERT(std::fabs(d - expect * expect) <= 1e-9 * P * P);
      RC_ASSERT(std::fabs(dshift - d) <= 1e-7 * P * P);
      RC_ASSERT(cv->dist2(A, A2) <= 1e-9 * P * P);
      // gradient: derivative of d2 w.r.t. the first argument (away from the cut locus |diff| = P/2)
      if (std::fabs(std::fabs(expect) - 0.5 * P) > 1e-3 * P) {
        double g = cv->dist2_lgrad(A, B).real_value;
        RC_ASSERT(std::fabs(g - 2.0 * expect) <= 1e-9 * P);
        double gs = cv->dist2_lgrad(A2, B2).real_value;
        RC_ASSERT(std::fabs(gs - 2.0 * expect) <= 1e-7 * P);
      }
      // wrap: equivalent value inside [W - P/2, W + P/2)
      colvarvalue X(a + na * P + *genInt(0, 1) * 0.25 * P);
      double x0 = X.real_value;
      cv->wrap(X);
      double xw = X.real_value;
      double k = (x0 - xw) / P;
      RC_LOG() << " wrap(" << dstr(x0) << ")=" << dstr(xw);
      RC_ASSERT(std::fabs(k - std::round(k)) <= 1e-9);
      RC_ASSERT(xw >= W - 0.5 * P - 1e-9 * P);
      RC_ASSERT(xw < W + 0.5 * P + 1e-9 * P);
      CNT.hit("periodic.cases");
      CNT.hit(std::string("periodic.kind") + std::to_string(kind));
      if (W != 0.0) CNT.hit("periodic.wrapcenter_nonzero");
      bool straddle = std::fabs(raw) > 0.5 * P || na != nb;
      if (straddle) CNT.hit("periodic.straddle");
      if (std::fabs(expect) > 1e-6 * P) CNT.hit("periodic.nontrivial");
      if (CNT.c["periodic.cases"] % 4001 == 1) CNT.sample("periodic kind=" + std::to_string(kind) + " P=" + dstr(P) + " W=" + dstr(W) + " a=" + dstr(a) + " b=" + dstr(b));
    }
  });

  CNT.dump(out);
  return ok ? 0 : 1;
}
