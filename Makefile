# Builds /repo/src (current working tree) into /verif/build/<variant>/ and links harness binaries.
REPO ?= /repo
SRCDIR := $(REPO)/src
SRCS := $(wildcard $(SRCDIR)/*.cpp)
NAMES := $(notdir $(SRCS:.cpp=))
B := /verif/build
GUARD := -DCOLVARS_VERIF -DVERIF_DEPS_HOOK

CXX_REL := g++
FLAGS_REL := -std=c++11 -O2 -g0 -fPIC $(GUARD) -I$(SRCDIR) -pthread
CXX_ASAN := clang++
FLAGS_ASAN := -std=c++17 -O1 -g1 -fsanitize=address,undefined,fuzzer-no-link -fno-sanitize-recover=undefined -fno-omit-frame-pointer $(GUARD) -I$(SRCDIR) -pthread
CXX_TSAN := clang++
FLAGS_TSAN := -std=c++17 -O1 -g1 -fsanitize=thread $(GUARD) -I$(SRCDIR) -pthread

OBJS_REL := $(addprefix $(B)/rel/,$(addsuffix .o,$(NAMES)))
OBJS_ASAN := $(addprefix $(B)/asan/,$(addsuffix .o,$(NAMES)))
OBJS_TSAN := $(addprefix $(B)/tsan/,$(addsuffix .o,$(NAMES)))

ENG := /verif/engine
ENGH := $(ENG)/vproxy.h $(wildcard $(ENG)/*.h)

.PHONY: all everything rel asan tsan clean
all: rel
RC_TARGETS := $(patsubst /verif/rc/%.cpp,$(B)/rel/%,$(wildcard /verif/rc/rc_c*.cpp))
FUZZ_TARGETS := $(patsubst /verif/fuzz/%.cpp,$(B)/asan/%,$(wildcard /verif/fuzz/fuzz_*.cpp))
# everything the registered commands use (each check also builds what it needs, from the current tree)
everything: rel asan tsan $(RC_TARGETS) $(FUZZ_TARGETS)
rel: $(B)/rel/cvdrive
asan: $(B)/asan/cvdrive
tsan: $(B)/tsan/cvdrive

$(B)/rel/%.o: $(SRCDIR)/%.cpp
	@mkdir -p $(B)/rel
	$(CXX_REL) $(FLAGS_REL) -MMD -MP -c $< -o $@
$(B)/asan/%.o: $(SRCDIR)/%.cpp
	@mkdir -p $(B)/asan
	$(CXX_ASAN) $(FLAGS_ASAN) -MMD -MP -c $< -o $@
$(B)/tsan/%.o: $(SRCDIR)/%.cpp
	@mkdir -p $(B)/tsan
	$(CXX_TSAN) $(FLAGS_TSAN) -MMD -MP -c $< -o $@

$(B)/rel/libcolvars.a: $(OBJS_REL)
	@rm -f $@
	ar rcs $@ $(OBJS_REL)
$(B)/asan/libcolvars.a: $(OBJS_ASAN)
	@rm -f $@
	ar rcs $@ $(OBJS_ASAN)
$(B)/tsan/libcolvars.a: $(OBJS_TSAN)
	@rm -f $@
	ar rcs $@ $(OBJS_TSAN)

# engine objects
$(B)/rel/eng_%.o: $(ENG)/%.cpp $(ENGH)
	@mkdir -p $(B)/rel
	$(CXX_REL) $(FLAGS_REL) -I$(ENG) -MMD -MP -c $< -o $@
$(B)/asan/eng_%.o: $(ENG)/%.cpp $(ENGH)
	@mkdir -p $(B)/asan
	$(CXX_ASAN) $(FLAGS_ASAN) -I$(ENG) -MMD -MP -c $< -o $@
$(B)/tsan/eng_%.o: $(ENG)/%.cpp $(ENGH)
	@mkdir -p $(B)/tsan
	$(CXX_TSAN) $(FLAGS_TSAN) -I$(ENG) -MMD -MP -c $< -o $@

$(B)/rel/cvdrive: $(B)/rel/eng_cvdrive.o $(B)/rel/eng_vproxy.o $(B)/rel/libcolvars.a
	$(CXX_REL) $(FLAGS_REL) -o $@ $(B)/rel/eng_cvdrive.o $(B)/rel/eng_vproxy.o $(B)/rel/libcolvars.a
$(B)/asan/cvdrive: $(B)/asan/eng_cvdrive.o $(B)/asan/eng_vproxy.o $(B)/asan/libcolvars.a
	$(CXX_ASAN) -fsanitize=address,undefined -pthread -o $@ $(B)/asan/eng_cvdrive.o $(B)/asan/eng_vproxy.o $(B)/asan/libcolvars.a
$(B)/tsan/cvdrive: $(B)/tsan/eng_cvdrive.o $(B)/tsan/eng_vproxy.o $(B)/tsan/libcolvars.a
	$(CXX_TSAN) -fsanitize=thread -pthread -o $@ $(B)/tsan/eng_cvdrive.o $(B)/tsan/eng_vproxy.o $(B)/tsan/libcolvars.a

# rapidcheck targets (direct API)
RCH := /verif/rc/rc_common.h
$(B)/rel/rc_%: /verif/rc/rc_%.cpp $(RCH) $(ENGH) $(B)/rel/eng_vproxy.o $(B)/rel/libcolvars.a
	$(CXX_REL) -std=c++14 -O1 -g0 $(GUARD) -I$(SRCDIR) -I$(ENG) -I/verif/rc -pthread -o $@ $< $(B)/rel/eng_vproxy.o $(B)/rel/libcolvars.a -lrapidcheck

# libFuzzer targets
FZH := $(wildcard /verif/fuzz/*.h)
$(B)/asan/fuzz_%: /verif/fuzz/fuzz_%.cpp $(FZH) $(ENGH) $(B)/asan/eng_vproxy.o $(B)/asan/libcolvars.a
	$(CXX_ASAN) -std=c++17 -O1 -g1 -fsanitize=fuzzer,address,undefined -fno-sanitize-recover=undefined $(GUARD) -I$(SRCDIR) -I$(ENG) -I/verif/fuzz -pthread -o $@ $< $(B)/asan/eng_vproxy.o $(B)/asan/libcolvars.a

clean:
	rm -rf $(B)

-include $(wildcard $(B)/rel/*.d) $(wildcard $(B)/asan/*.d) $(wildcard $(B)/tsan/*.d)
