// C11(b): loading a damaged text or binary state never crashes, hangs or touches memory out of bounds,
// and leaves the module usable.  Byte 0 selects the embedded configuration and the format.
#include "fuzz_common.h"
#include "state_configs.h"

#include "colvars_memstream.h"
// VF_DUMP_SEEDS=<dir>: write valid states (selector byte + state) for every embedded configuration, then exit
extern "C" int LLVMFuzzerInitialize(int *, char ***)
{
  char const *dir = getenv("VF_DUMP_SEEDS");
  if (!dir) return 0;
  for (int ci = 0; ci < N_STATE_CONFIGS; ci++) {
    std::unique_ptr<vproxy> p(fresh_module(12, 1));
    if (p->colvars->read_config_string(STATE_CONFIGS[ci]) != 0) {
      fprintf(stderr, "embedded configuration %d rejected: %s\n", ci, p->get_error_msgs().c_str());
      exit(3);
    }
    for (int k = 0; k < 8; k++) { move_atoms(p.get(), k); p->step(); }
    if (cvm::get_error()) { fprintf(stderr, "steps failed for configuration %d: %s\n", ci, p->get_error_msgs().c_str()); exit(3); }
    std::string txt;
    p->colvars->write_restart_string(txt);
    cvm::memory_stream ms;
    p->colvars->write_state(ms);
    for (int bin = 0; bin < 2; bin++) {
      std::string path = std::string(dir) + "/seed_" + std::to_string(ci) + (bin ? "_bin" : "_txt");
      FILE *f = fopen(path.c_str(), "wb");
      fputc(2 * ci + bin, f);
      if (bin) fwrite(ms.output_buffer(), 1, ms.length(), f); else fwrite(txt.data(), 1, txt.size(), f);
      fclose(f);
    }
  }
  exit(0);
}

extern "C" int LLVMFuzzerTestOneInput(const uint8_t *data, size_t size)
{
  if (size < 1) return 0;
  int const sel = data[0] % (2 * N_STATE_CONFIGS);
  int const ci = sel / 2;
  bool const binary = sel % 2;
  std::unique_ptr<vproxy> p(fresh_module(12, 1));
  if (p->colvars->read_config_string(STATE_CONFIGS[ci]) != 0) fuzz_fail("embedded configuration rejected");
  move_atoms(p.get(), 0);
  p->step();
  cvm::clear_error();
  int rc = 0;
  if (binary) {
    std::vector<unsigned char> buf(data + 1, data + size);
    p->colvars->set_input_state_buffer(buf);
    rc = p->colvars->setup_input();
  } else {
    std::string s(reinterpret_cast<char const *>(data + 1), size - 1);
    p->input_stream_from_string("input state string", s);
    rc = p->colvars->setup_input();
  }
  if (rc == 0 && cvm::get_error() == 0) {
    // accepted: the module must be able to go on and to save what it holds
    p->first_step = true;
    for (int k = 1; k < 3; k++) {
      move_atoms(p.get(), k);
      p->step();
      if (cvm::get_error()) break;
    }
    std::string out;
    p->colvars->write_restart_string(out);
  }
  cvm::clear_error();
  p->err_lines.clear();
  p->clear_error_msgs();
  p->colvars->reset();
  cvm::clear_error();
  if (p->colvars->read_config_string("colvar {\n name probe\n distance {\n group1 { atomNumbers 1 }\n group2 { atomNumbers 2 }\n }\n}\n") != 0)
    fuzz_fail("module unusable after loading a damaged state");
  p->first_step = true;
  p->step();
  colvar *cv = cvm::colvar_by_name("probe");
  if (!cv || std::fabs(cv->value().real_value - (p->pos[1] - p->pos[0]).norm()) > 1e-9)
    fuzz_fail("canonical variable wrong after loading a damaged state");
  return 0;
}
