// C20(a): any sequence of script commands with any arguments returns a result or an error, never crashes,
// and leaves the module usable.  Bytes are decoded into a command sequence over the registered command table.
#include "fuzz_common.h"
#include "colvarscript_commands.h"
#include <unistd.h>

static char const *BASE_CONF =
  "colvar {\n name d\n width 0.5\n lowerBoundary 0\n upperBoundary 10\n distance {\n group1 { atomNumbers 1 2 }\n group2 { atomNumbers 3 }\n }\n}\n"
  "colvar {\n name a\n angle {\n group1 { atomNumbers 4 }\n group2 { atomNumbers 5 }\n group3 { atomNumbers 6 }\n }\n}\n"
  "harmonic {\n name h\n colvars d\n centers 2.0\n forceConstant 1.0\n}\n"
  "histogram {\n name hist\n colvars d\n}\n"
  "metadynamics {\n name m\n colvars d\n hillWeight 0.1\n hillWidth 1.5\n newHillFrequency 1\n}\n";

static std::string pick_arg(FuzzedDataProvider &fdp)
{
  static char const *pool[] = {
    "d", "a", "h", "hist", "m", "nosuch", "", "0", "1", "-1", "2.5", "1e300", "nan", "inf", "abc", "on", "off",
    "(1.0, 2.0, 3.0)", "1 2 3", "value", "width", "collect_gradient", "total_force", "apply_force", "active",
    "colvar {\n name x2\n distance {\n group1 { atomNumbers 7 }\n group2 { atomNumbers 8 }\n }\n}\n",
    "harmonic {\n colvars d\n centers 1.0\n forceConstant 2.0\n}\n",
    "colvar {", "}", "componentCoeff 2.0", "forceConstant 3.0", "real", "metal", "nosuchfile.state", "out", "out.colvars.state",
    "99999999999999999999", "-0", "0x10", " ", "\n", "cv", "colvar", "bias", "300.0", "2.0 3.0", "{1 2 3}", "1 0 1",
  };
  int const n = sizeof(pool) / sizeof(pool[0]);
  int k = fdp.ConsumeIntegralInRange<int>(0, n + 3);
  if (k < n) return pool[k];
  if (k == n) return fdp.ConsumeRandomLengthString(64);
  if (k == n + 1) return std::string(fdp.ConsumeIntegralInRange<int>(0, 5000), 'x');
  if (k == n + 2) return std::to_string(fdp.ConsumeIntegral<long long>());
  return std::to_string(fdp.ConsumeFloatingPoint<double>());
}

extern "C" int LLVMFuzzerTestOneInput(const uint8_t *data, size_t size)
{
  static std::string dir;
  if (dir.empty()) {
    dir = fuzz_tmpdir();
    if (chdir(dir.c_str())) {}
  }
  FuzzedDataProvider fdp(data, size);
  std::unique_ptr<vproxy> p(fresh_module(12, 1));
  p->set_output_prefix("out");
  p->colvars->setup_output();
  if (p->colvars->read_config_string(BASE_CONF) != 0) fuzz_fail("base configuration rejected");
  move_atoms(p.get(), 0);
  p->step();
  int const ncmd = cvscript_n_commands();
  char const **names = cvscript_command_names();
  int nsteps = 0;
  for (int it = 0; it < 24 && fdp.remaining_bytes() > 0; it++) {
    int what = fdp.ConsumeIntegralInRange<int>(0, 9);
    if (what == 0 && nsteps < 6) {
      cvm::clear_error();
      move_atoms(p.get(), ++nsteps);
      p->step();
      continue;
    }
    std::vector<std::string> args;
    if (what == 1) {
      // completely free-form
      int na = fdp.ConsumeIntegralInRange<int>(0, 5);
      for (int k = 0; k < na; k++) args.push_back(pick_arg(fdp));
    } else {
      std::string full = names[fdp.ConsumeIntegralInRange<int>(0, ncmd - 1)];
      size_t us = full.find('_');
      std::string pre = full.substr(0, us), sub = us == std::string::npos ? "" : full.substr(us + 1);
      if (pre == "cv") { args = {"cv", sub}; }
      else if (pre == "colvar") { args = {"colvar", fdp.ConsumeBool() ? (fdp.ConsumeBool() ? "d" : "a") : pick_arg(fdp), sub}; }
      else { args = {"bias", fdp.ConsumeBool() ? (fdp.ConsumeBool() ? "h" : (fdp.ConsumeBool() ? "hist" : "m")) : pick_arg(fdp), sub}; }
      int na = fdp.ConsumeIntegralInRange<int>(0, 4);
      for (int k = 0; k < na; k++) args.push_back(pick_arg(fdp));
    }
    std::vector<unsigned char *> objv;
    for (auto &a : args) objv.push_back((unsigned char *)a.c_str());
    cvm::clear_error();
    int const rc = run_colvarscript_command((int)objv.size(), objv.data());
    char const *res = get_colvarscript_result();
    if (!res) fuzz_fail("null result string");
    if (rc == COLVARS_OK && cvm::get_error() != COLVARS_OK) {
      // a command returns a result or an error, not "success" with the module's error flag raised
      std::string what = "command returned success with error flag set:";
      size_t const isub = (args.size() > 0 && args[0] == "cv") ? 1 : 2;
      if (args.size() > 0) what += " " + args[0].substr(0, 8);
      if (args.size() > isub) what += " " + args[isub].substr(0, 24);
      fuzz_fail(what.c_str());
    }
  }
  // module still usable
  cvm::clear_error();
  p->err_lines.clear();
  p->clear_error_msgs();
  p->colvars->reset();
  cvm::clear_error();
  if (p->colvars->read_config_string("colvar {\n name probe\n distance {\n group1 { atomNumbers 1 }\n group2 { atomNumbers 2 }\n }\n}\n") != 0)
    fuzz_fail("module unusable after the command sequence");
  p->first_step = true;
  p->step();
  colvar *cv = cvm::colvar_by_name("probe");
  if (!cv || std::fabs(cv->value().real_value - (p->pos[1] - p->pos[0]).norm()) > 1e-9)
    fuzz_fail("canonical variable wrong after the command sequence");
  return 0;
}
