// Configurations embedded in the state fuzzer / truncation scanner: one per bias family.
#ifndef STATE_CONFIGS_H
#define STATE_CONFIGS_H
static char const *CV_Z1 =
  "colvar {\n name z1\n width 0.5\n lowerBoundary -4\n upperBoundary 12\n"
  " distanceZ {\n main { atomNumbers 1 2 }\n ref { dummyAtom (0, 0, 0) }\n oneSiteTotalForce on\n }\n}\n";
static char const *CV_D2 =
  "colvar {\n name d2\n width 0.4\n lowerBoundary 0\n upperBoundary 10\n"
  " distance {\n group1 { atomNumbers 3 4 }\n group2 { atomNumbers 5 }\n }\n}\n";
#define CVS "colvar {\n name z1\n width 0.5\n lowerBoundary -4\n upperBoundary 12\n distanceZ {\n main { atomNumbers 1 2 }\n ref { dummyAtom (0, 0, 0) }\n oneSiteTotalForce on\n }\n}\ncolvar {\n name d2\n width 0.4\n lowerBoundary 0\n upperBoundary 10\n distance {\n group1 { atomNumbers 3 4 }\n group2 { atomNumbers 5 }\n }\n}\n"
static char const *STATE_CONFIGS[] = {
  CVS "harmonic {\n colvars z1 d2\n centers 1.0 3.0\n targetCenters 2.0 4.0\n targetNumSteps 20\n forceConstant 2.0\n outputAccumulatedWork on\n}\n",
  CVS "metadynamics {\n colvars z1 d2\n hillWeight 0.1\n hillWidth 1.5\n newHillFrequency 1\n keepHills on\n}\n",
  CVS "metadynamics {\n colvars z1\n hillWeight 0.1\n hillWidth 1.5\n newHillFrequency 1\n useGrids off\n wellTempered on\n biasTemperature 1000\n}\n",
  CVS "abf {\n colvars z1 d2\n fullSamples 2\n integrate off\n}\n",
  CVS "histogram {\n colvars z1 d2\n}\n",
  CVS "abmd {\n colvars d2\n forceConstant 2.0\n stoppingValue 8.0\n}\nharmonicWalls {\n colvars z1\n lowerWalls 0.0\n upperWalls 5.0\n forceConstant 1.0\n targetForceConstant 3.0\n targetNumSteps 10\n targetNumStages 2\n}\n",
  CVS "opes_metad {\n colvars z1\n newHillFrequency 1\n barrier 5.0\n gaussianSigma 0.4\n}\n",
  "colvar {\n name z1\n width 0.5\n lowerBoundary -4\n upperBoundary 12\n extendedLagrangian on\n extendedFluctuation 0.3\n extendedTimeConstant 50\n"
  " distanceZ {\n main { atomNumbers 1 2 }\n ref { dummyAtom (0, 0, 0) }\n oneSiteTotalForce on\n }\n}\n"
  "abf {\n colvars z1\n fullSamples 2\n}\n"
  "alb {\n colvars z1\n centers 2.0\n updateFrequency 6\n}\n",
};
static int const N_STATE_CONFIGS = sizeof(STATE_CONFIGS) / sizeof(STATE_CONFIGS[0]);
#endif
