// C09(a)/C10: any byte string given as configuration is accepted or rejected with an error, never fatal;
// afterwards the module is still usable (a canonical configuration gives the expected value).
#include "fuzz_common.h"

extern "C" int LLVMFuzzerTestOneInput(const uint8_t *data, size_t size)
{
  std::unique_ptr<vproxy> p(fresh_module());
  std::string conf(reinterpret_cast<char const *>(data), size);
  static std::string dir;
  if (dir.empty()) dir = fuzz_tmpdir();
  p->set_output_prefix(dir + "/out");
  p->colvars->setup_output();
  int rc = p->colvars->read_config_string(conf);
  if (rc == 0 && cvm::get_error() == 0) {
    for (int k = 0; k < 3; k++) {
      move_atoms(p.get(), k);
      p->step();
      if (cvm::get_error()) break;
    }
    if (!cvm::get_error()) p->colvars->write_output_files();
  }
  // the module must stay usable after whatever happened
  cvm::clear_error();
  p->err_lines.clear();
  p->clear_error_msgs();
  p->colvars->reset();
  cvm::clear_error();
  int rc2 = p->colvars->read_config_string(
      "colvar {\n name probe\n distance {\n group1 { atomNumbers 1 }\n group2 { atomNumbers 2 }\n }\n}\n");
  if (rc2 != 0) fuzz_fail("module unusable after the fuzzed configuration: canonical configuration rejected");
  p->step();
  colvar *cv = cvm::colvar_by_name("probe");
  if (!cv) fuzz_fail("canonical variable missing");
  double expect = (p->pos[1] - p->pos[0]).norm();
  if (std::fabs(cv->value().real_value - expect) > 1e-9) fuzz_fail("canonical variable has the wrong value after the fuzzed configuration");
  return 0;
}
