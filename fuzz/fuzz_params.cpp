// C10(a): for syntactically valid configurations, whatever the numeric/structural parameter values, init and the
// following steps work or fail with an error; never a signal, sanitizer report, hang or unbounded allocation.
// Structure-aware: bytes select, per keyword of curated object templates, the template value or a boundary value.
#include "fuzz_common.h"
#include <unistd.h>

struct KW { char const *key; char const *def; int kind; };  // kind: 0 number, 1 list of numbers, 2 boolean, 3 names/other
struct TPL { char const *head; std::vector<KW> kws; char const *body; char const *tail; };

static std::vector<TPL> const &templates()
{
  static std::vector<TPL> T = {
    {"colvar {\n name d\n", {{"width", "0.5", 0}, {"lowerBoundary", "0", 0}, {"upperBoundary", "10", 0}, {"expandBoundaries", "on", 2},
       {"hardLowerBoundary", "on", 2}, {"outputTotalForce", "on", 2}, {"outputAppliedForce", "on", 2}, {"outputVelocity", "on", 2},
       {"timeStepFactor", "1", 0}, {"runAve", "on", 2}, {"runAveLength", "4", 0}, {"runAveStride", "1", 0},
       {"corrFunc", "on", 2}, {"corrFuncLength", "4", 0}, {"corrFuncStride", "1", 0}, {"corrFuncOffset", "0", 0},
       {"corrFuncType", "coordinate", 3}, {"extendedLagrangian", "on", 2}, {"extendedFluctuation", "0.2", 0},
       {"extendedTimeConstant", "50", 0}, {"extendedTemp", "300", 0}, {"extendedLangevinDamping", "1.0", 0},
       {"reflectingLowerBoundary", "on", 2}, {"subtractAppliedForce", "on", 2}},
     " distance {\n componentCoeff 1.0\n group1 { atomNumbers 1 2 }\n group2 { atomNumbers 3 }\n }\n", "}\n"},
    {"colvar {\n name c\n", {{"width", "0.2", 0}, {"lowerBoundary", "0", 0}, {"upperBoundary", "4", 0}},
     " coordNum {\n cutoff 3.0\n expNumer 6\n expDenom 12\n tolerance 0.001\n pairListFrequency 2\n group1 { atomNumbers 4 5 }\n group2 { atomNumbers 6 7 8 }\n }\n", "}\n"},
    {"colvar {\n name z\n", {{"width", "0.5", 0}, {"lowerBoundary", "-5", 0}, {"upperBoundary", "15", 0}},
     " distanceZ {\n main { atomNumbers 9 }\n ref { dummyAtom (0,0,0) }\n oneSiteTotalForce on\n }\n", "}\n"},
    {"harmonic {\n colvars d\n", {{"centers", "2.0", 1}, {"forceConstant", "1.0", 0}, {"targetCenters", "3.0", 1}, {"targetForceConstant", "2.0", 0},
       {"targetNumSteps", "4", 0}, {"targetNumStages", "2", 0}, {"targetEquilSteps", "1", 0}, {"lambdaExponent", "1.0", 0},
       {"lambdaSchedule", "0 0.5 1", 1}, {"decoupling", "on", 2}, {"outputAccumulatedWork", "on", 2}, {"outputCenters", "on", 2},
       {"timeStepFactor", "1", 0}, {"outputEnergy", "on", 2}, {"writeTIPMF", "on", 2}, {"writeTISamples", "on", 2}, {"outputFreq", "2", 0}}, "", "}\n"},
    {"harmonicWalls {\n colvars d z\n", {{"lowerWalls", "1.0 -2.0", 1}, {"upperWalls", "5.0 9.0", 1}, {"lowerWallConstant", "1.0", 0},
       {"upperWallConstant", "2.0", 0}, {"forceConstant", "1.0", 0}, {"targetForceConstant", "2.0", 0}, {"targetNumSteps", "4", 0},
       {"bypassExtendedLagrangian", "on", 2}}, "", "}\n"},
    {"linear {\n colvars d\n", {{"centers", "1.0", 1}, {"forceConstant", "1.0", 0}, {"targetForceConstant", "2.0", 0}, {"targetNumSteps", "3", 0}}, "", "}\n"},
    {"histogram {\n colvars d z\n", {{"outputFreq", "2", 0}, {"outputFile", "h.dat", 3}, {"outputFileDX", "h.dx", 3}, {"stepZeroData", "on", 2}},
     " grid {\n widths 0.5 1.0\n lowerBoundaries 0 -5\n upperBoundaries 10 15\n }\n", "}\n"},
    {"abf {\n colvars d\n", {{"fullSamples", "2", 0}, {"minSamples", "1", 0}, {"maxForce", "5.0", 1}, {"hideJacobian", "on", 2}, {"applyBias", "on", 2},
       {"updateBias", "on", 2}, {"historyFreq", "2", 0}, {"outputFreq", "2", 0}, {"integrate", "on", 2}, {"integrateMaxIterations", "10", 0},
       {"integrateTol", "1e-4", 0}, {"shared", "off", 2}, {"CZARestimator", "on", 2}, {"UIestimator", "off", 2}, {"writeCZARwindowFile", "on", 2},
       {"inputPrefix", "nosuch", 3}}, "", "}\n"},
    {"abf {\n colvars d z\n", {{"fullSamples", "2", 0}, {"integrate", "on", 2}, {"integrateMaxIterations", "5", 0}, {"pABFintegrateFreq", "2", 0},
       {"outputFreq", "3", 0}}, "", "}\n"},
    {"metadynamics {\n colvars d\n", {{"hillWeight", "0.1", 0}, {"hillWidth", "1.5", 0}, {"gaussianSigmas", "0.4", 1}, {"newHillFrequency", "1", 0},
       {"useGrids", "on", 2}, {"gridsUpdateFrequency", "2", 0}, {"rebinGrids", "on", 2}, {"keepHills", "on", 2}, {"wellTempered", "on", 2},
       {"biasTemperature", "1000", 0}, {"writeFreeEnergyFile", "on", 2}, {"keepFreeEnergyFiles", "on", 2}, {"writeHillsTrajectory", "on", 2},
       {"dumpPartialFreeEnergyFile", "on", 2}, {"outputFreq", "2", 0}, {"ebMeta", "off", 2}, {"ebMetaEquilSteps", "2", 0},
       {"multipleReplicas", "off", 2}, {"replicaID", "r1", 3}, {"replicasRegistry", "reg.txt", 3}, {"replicaUpdateFrequency", "2", 0}}, "", "}\n"},
    {"metadynamics {\n colvars d z\n", {{"hillWeight", "0.1", 0}, {"hillWidth", "1.0", 0}, {"newHillFrequency", "2", 0}, {"useGrids", "on", 2},
       {"keepHills", "on", 2}}, "", "}\n"},
    {"opes_metad {\n colvars z\n", {{"newHillFrequency", "1", 0}, {"barrier", "5.0", 0}, {"gaussianSigma", "0.4", 1}, {"gaussianSigmaMin", "0.01", 1},
       {"adaptiveSigma", "off", 2}, {"adaptiveSigmaStride", "2", 0}, {"biasfactor", "10", 3}, {"epsilon", "0.001", 0}, {"kernelCutoff", "4.0", 0},
       {"compressionThreshold", "1.0", 0}, {"neighborList", "off", 2}, {"neighborListParameters", "3.0 0.5", 1}, {"noZed", "off", 2},
       {"fixedGaussianSigma", "on", 2}, {"recursiveMerge", "on", 2}, {"calcWork", "on", 2}, {"explore", "off", 2}, {"pmf", "on", 2},
       {"pmfColvars", "z", 3}, {"pmfHistoryFrequency", "2", 0}, {"printTrajectoryFrequency", "1", 0}, {"outputFreq", "2", 0}}, "", "}\n"},
    {"abmd {\n colvars d\n", {{"forceConstant", "2.0", 0}, {"stoppingValue", "8.0", 0}, {"decreasing", "off", 2}}, "", "}\n"},
    {"alb {\n colvars d\n", {{"centers", "2.0", 1}, {"updateFrequency", "6", 0}, {"forceRange", "3.0", 1}, {"rateMax", "1.0", 1}, {"forceConstant", "0.1", 1},
       {"hardForceRange", "on", 2}, {"outputCoupling", "on", 2}, {"outputGradient", "on", 2}, {"outputCenters", "on", 2}}, "", "}\n"},
    {"histogramRestraint {\n colvars d\n", {{"lowerBoundary", "0", 0}, {"upperBoundary", "4", 0}, {"width", "1.0", 0}, {"gaussianSigma", "1.0", 0},
       {"refHistogram", "0.1 0.4 0.4 0.1", 1}, {"forceConstant", "10", 0}, {"writeHistogram", "on", 2}, {"refHistogramFile", "nosuch.dat", 3}}, "", "}\n"},
  };
  return T;
}

static std::string mutate_value(FuzzedDataProvider &fdp, KW const &kw, bool &boundary)
{
  static char const *nums[] = {"0", "-1", "1", "2", "2147483648", "1e300", "-1e300", "nan", "inf", "1e-300", "0.0", "-0.5", "1000000", "3.5", "99999999999"};
  static char const *lists[] = {"", "0", "1 2 3 4 5 6", "nan", "-1 -1", "5.0 1.0", "1e300 1e300", "0 0", "inf"};
  static char const *others[] = {"on", "off", "", "nosuch", "d", "z", "d z c", "velocity", "coordinate_p2", "/nonexistent/x"};
  int pick = fdp.ConsumeIntegralInRange<int>(0, 9);
  if (pick < 4) return kw.def;                   // template value
  boundary = true;
  if (kw.kind == 0) return nums[fdp.ConsumeIntegralInRange<int>(0, 14)];
  if (kw.kind == 1) return fdp.ConsumeBool() ? lists[fdp.ConsumeIntegralInRange<int>(0, 8)] : nums[fdp.ConsumeIntegralInRange<int>(0, 14)];
  if (kw.kind == 2) return fdp.ConsumeBool() ? (std::string(kw.def) == "on" ? "off" : "on") : others[fdp.ConsumeIntegralInRange<int>(0, 9)];
  return others[fdp.ConsumeIntegralInRange<int>(0, 9)];
}

// atom-group definition of group1 of variable d: the template selection, or a boundary form of each selection keyword
static std::string gen_group(FuzzedDataProvider &fdp, bool &boundary)
{
  static char const *ends[] = {"0", "-1", "1", "2", "5", "10", "12", "13", "2147483648", "99999999999", "abc", ""};
  static char const *lists[] = {"", "0", "1 1", "1 2 2 1", "13", "-1", "3 2 1", "1 2 3 4 5 6 7 8 9 10 11 12", "2147483648", "1 x"};
  static char const *opts[] = {"", " centerToReference on\n", " rotateToReference on\n", " centerToReference on\n rotateToReference on\n refPositions (0,0,0) (1,0,0)\n",
                               " refPositions (0,0,0)\n centerToReference on\n", " enableFitGradients off\n", " fittingGroup { atomNumbers 4 5 6 }\n centerToReference on\n refPositions (0,0,0) (1,0,0) (0,1,0)\n",
                               " centerToOrigin on\n", " refPositionsFile nosuch.xyz\n rotateToReference on\n"};
  int form = fdp.ConsumeIntegralInRange<int>(0, 11);
  if (form < 5) return " atomNumbers 1 2\n";
  boundary = true;
  std::string g;
  switch (form) {
  case 5: g = std::string(" atomNumbersRange ") + ends[fdp.ConsumeIntegralInRange<int>(0, 11)] + "-" + ends[fdp.ConsumeIntegralInRange<int>(0, 11)] + "\n"; break;
  case 6: g = std::string(" atomNumbers ") + lists[fdp.ConsumeIntegralInRange<int>(0, 9)] + "\n"; break;
  case 7: g = std::string(" atomNameResidueRange CA ") + ends[fdp.ConsumeIntegralInRange<int>(0, 11)] + "-" + ends[fdp.ConsumeIntegralInRange<int>(0, 11)] + "\n"; break;
  case 8: g = " indexGroup nosuch\n"; break;
  case 9: g = std::string(" atomNumbers 1 2\n atomNumbersRange ") + ends[fdp.ConsumeIntegralInRange<int>(0, 11)] + "-" + ends[fdp.ConsumeIntegralInRange<int>(0, 11)] + "\n"; break;
  case 10: g = " atomsFile nosuch.pdb\n atomsCol O\n"; break;
  default: g = std::string(" dummyAtom ") + (fdp.ConsumeBool() ? "(1, 2)" : "(1, 2, nan)") + "\n"; break;
  }
  return g + opts[fdp.ConsumeIntegralInRange<int>(0, 8)];
}

extern "C" int LLVMFuzzerTestOneInput(const uint8_t *data, size_t size)
{
  static std::string dir;
  if (dir.empty()) {
    dir = fuzz_tmpdir();
    if (chdir(dir.c_str())) {}
  }
  FuzzedDataProvider fdp(data, size);
  std::unique_ptr<vproxy> p(fresh_module(12, fdp.ConsumeIntegralInRange<int>(0, 2)));
  p->set_output_prefix("out");
  p->colvars->setup_output();
  p->set_target_temperature(fdp.ConsumeBool() ? 300.0 : 0.0);
  std::string conf;
  static char const *globals[] = {"", "colvarsTrajFrequency 1\n", "colvarsTrajFrequency 0\n", "colvarsRestartFrequency 2\n",
                                  "colvarsRestartFrequency 0\n", "colvarsTrajFrequency -1\n", "colvarsRestartFrequency -3\n", "smp off\n"};
  conf += globals[fdp.ConsumeIntegralInRange<int>(0, 7)];
  conf += globals[fdp.ConsumeIntegralInRange<int>(0, 7)];
  auto const &T = templates();
  bool any_boundary = false;
  // 1-3 biases and the three variables (each may be mutated).  The biases consume the input first: the provider returns its
  // minimum once the bytes run out, and short inputs would otherwise never reach a bias keyword
  std::vector<int> order;
  int nb = fdp.ConsumeIntegralInRange<int>(1, 3);
  for (int k = 0; k < nb; k++) order.push_back(fdp.ConsumeIntegralInRange<int>(3, (int)T.size() - 1));
  order.push_back(0); order.push_back(1); order.push_back(2);
  std::string conf_biases, conf_cvs;
  for (int ti : order) {
    TPL const &t = T[ti];
    std::string &out = (ti <= 2) ? conf_cvs : conf_biases;
    out += t.head;
    for (auto const &kw : t.kws) {
      int mode = fdp.ConsumeIntegralInRange<int>(0, 3);
      bool essential = (std::string(kw.key) == "width" || std::string(kw.key) == "lowerBoundary" || std::string(kw.key) == "upperBoundary" ||
                        std::string(kw.key) == "centers" || std::string(kw.key) == "forceConstant" || std::string(kw.key) == "hillWeight" ||
                        std::string(kw.key) == "newHillFrequency" || std::string(kw.key) == "barrier" || std::string(kw.key) == "updateFrequency" ||
                        std::string(kw.key) == "refHistogram" || std::string(kw.key) == "stoppingValue" || std::string(kw.key) == "lowerWalls" ||
                        std::string(kw.key) == "upperWalls" || std::string(kw.key) == "hillWidth");
      if (mode == 0 && !essential) continue;         // drop optional keyword
      if (mode == 0 && essential && fdp.ConsumeIntegralInRange<int>(0, 5) == 0) continue;  // rarely drop an essential one
      if (mode == 1 && !essential) { out += std::string(" ") + kw.key + " " + kw.def + "\n"; continue; }   // template value
      out += std::string(" ") + kw.key + " " + mutate_value(fdp, kw, any_boundary) + "\n";
    }
    if (ti == 0) {
      // the atom selection of group1 is generated last (it consumes from the input after the keywords of this object)
      out += " distance {\n componentCoeff 1.0\n group1 {\n" + gen_group(fdp, any_boundary) + " }\n group2 { atomNumbers 3 }\n }\n";
    } else {
      out += t.body;
    }
    out += t.tail;
  }
  conf += conf_cvs + conf_biases;
  if (getenv("VF_DUMP_CONF")) fprintf(stderr, "=====CONF\n%s\n", conf.c_str());
  int rc = p->colvars->read_config_string(conf);
  if (rc == 0 && cvm::get_error() == 0) {
    int const nsteps = fdp.ConsumeIntegralInRange<int>(0, 6);
    for (int k = 0; k < nsteps; k++) {
      move_atoms(p.get(), k);
      for (size_t a = 0; a < p->fsys.size(); a++) p->fsys[a] = cvm::rvector(0.3 * ((a + k) % 3) - 0.3, 0.1 * k, -0.2);
      if (k == 3 && fdp.ConsumeBool()) p->new_run();
      p->step();
      if (cvm::get_error()) break;
    }
    if (!cvm::get_error()) {
      p->colvars->write_output_files();
      std::string s;
      p->colvars->write_restart_string(s);
      p->post_run();
    }
  }
  // the module stays usable and a valid configuration is accepted afterwards
  cvm::clear_error();
  p->err_lines.clear();
  p->clear_error_msgs();
  p->colvars->reset();
  cvm::clear_error();
  if (p->colvars->read_config_string("colvar {\n name probe\n distance {\n group1 { atomNumbers 1 }\n group2 { atomNumbers 2 }\n }\n}\n") != 0)
    fuzz_fail("module unusable after a rejected or completed configuration");
  p->first_step = true;
  p->step();
  colvar *cv = cvm::colvar_by_name("probe");
  if (!cv || std::fabs(cv->value().real_value - (p->pos[1] - p->pos[0]).norm()) > 1e-9)
    fuzz_fail("canonical variable wrong afterwards");
  return 0;
}
