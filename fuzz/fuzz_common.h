// Common pieces of the libFuzzer targets: a fresh engine simulator per input.
#ifndef FUZZ_COMMON_H
#define FUZZ_COMMON_H
#include <cstdint>
#include <cstddef>
#include <cstdio>
#include <cstdlib>
#include <string>
#include <vector>
#include <memory>
#include <fuzzer/FuzzedDataProvider.h>
#include "vproxy.h"
#include "colvar.h"
#include "colvarbias.h"
#include "colvarscript.h"

static inline vproxy *fresh_module(int natoms = 12, int tf_mode = 1)
{
  vproxy::params P;
  P.natoms = natoms;
  P.tf_mode = tf_mode;
  for (int i = 0; i < natoms; i++) { P.masses.push_back(1.0 + (i % 5)); P.charges.push_back((i % 2) ? 0.4 : -0.3); }
  vproxy *p = new vproxy(P);
  for (int i = 0; i < natoms; i++)
    p->pos[i] = cvm::rvector(1.3 * i + 0.1 * (i % 3), 0.7 * (i % 2) + 0.05 * i, 0.4 * (i % 3) - 0.02 * i * i);
  p->set_target_temperature(300.0);
  return p;
}

static inline void move_atoms(vproxy *p, int k)
{
  for (size_t i = 0; i < p->pos.size(); i++) {
    p->pos[i].x += 0.11 * ((int(i) + k) % 3 - 1);
    p->pos[i].y += 0.07 * ((int(i) * 2 + k) % 5 - 2);
    p->pos[i].z -= 0.05 * ((int(i) + 2 * k) % 4 - 1.5);
  }
}

// scratch directory: below $VF_TMP (removed by the campaign runner) or a fresh mkdtemp
#include <unistd.h>
#include <sys/stat.h>
static inline std::string fuzz_tmpdir()
{
  char const *base = getenv("VF_TMP");
  if (base) {
    std::string d = std::string(base) + "/p" + std::to_string((long)getpid());
    mkdir(d.c_str(), 0700);
    return d;
  }
  char tmpl[] = "/tmp/vf_fz_XXXXXX";
  char *d = mkdtemp(tmpl);
  return d ? d : "/tmp";
}

static inline void fuzz_fail(char const *why)
{
  fprintf(stderr, "FUZZ-ORACLE-FAILURE: %s\n", why);
  fflush(stderr);
  __builtin_trap();
}
#endif
