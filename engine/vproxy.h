// Engine simulator for verification: a colvarproxy subclass that owns atoms, cell,
// forces, clock, RNG, threading schedule and file-operation faults.
// Uses only virtuals the library exposes to engines.
#ifndef VPROXY_H
#define VPROXY_H

#include <string>
#include <vector>
#include <map>
#include <mutex>
#include <functional>

#include "colvarmodule.h"
#include "colvarproxy.h"
#include "colvarscript.h"
#include "colvarvalue.h"

class vproxy : public colvarproxy {
public:
  struct params {
    int natoms = 8;
    std::vector<double> masses;   // size natoms (default 1)
    std::vector<double> charges;  // size natoms (default 0)
    std::string units = "real";
    int tf_mode = 0;              // 0: total forces unavailable; 1: same step (S); 2: late (L)
    bool quiet = true;            // do not echo log to stdout
    int restart_freq_engine = 0;
  };

  vproxy(params const &p);
  ~vproxy() override;

  // ---- harness-side controls ----
  params P;
  std::vector<cvm::rvector> pos;        // engine positions, per atom id
  std::vector<cvm::rvector> fsys;       // engine "system" force of the current step, per atom id
  std::vector<cvm::rvector> prev_total; // F_sys + F_colvars of the previous step (for L)
  bool prev_total_valid = false;
  double E_engine = 0.0;
  int n_add_energy = 0;
  std::vector<std::string> log_lines;   // captured log (only kept if keep_log)
  std::vector<std::string> err_lines;   // captured error messages
  bool keep_log = false;
  std::vector<double> gauss_tape;
  size_t gauss_pos = 0;
  bool first_step = true;
  bool next_is_repeat = false;

  // alchemy
  double alch_lambda = 0.5, alch_dEdl = 0.0, alch_d2Edl2 = 0.0, alch_applied_force = 0.0;
  bool alch_available = false;
  int alch_sent = 0; double alch_sent_value = 0.0;

  // threading schedule
  int sched_mode = 0;     // 0: smp none; 1: serial permuted (smp cvcs path); 2: real threads
  int sched_nthreads = 1;
  std::vector<unsigned> sched_tape;
  size_t sched_pos = 0;
  std::mutex smp_mutex;
  std::mutex smp_mutex_log;
  static thread_local int tl_thread_id;
  std::vector<int> depth_log; // cvm depth observed after each loop

  // I/O fault injection
  long io_op_count = 0;
  long io_die_at = -1;      // die (SIGKILL self) right before file operation number N (1-based)
  long io_die_after = -1;   // die right after operation number N
  std::vector<std::string> io_ops; // log of file operations
  void io_point(std::string const &what);
  void io_point_after(std::string const &what);

  // replicas (socket based); filled by walker
  int rep_index = 0, rep_num = 1;
  bool rep_enabled = false;
  std::vector<int> rep_fds; // fd to talk to replica i (only used by index 0 <-> i)

  size_t atoms_refcount_at(size_t i) const { return atoms_refcount[i]; }
  void set_cell(int type, double lx, double ly, double lz);
  void set_positions_to_module();
  /// one engine step: returns colvars->calc() error code
  int step();
  /// declare that the next step() starts a new run (repeats the last step number)
  void new_run() { next_is_repeat = true; }
  void set_step(long it) { colvars->it = colvars->it_restart = it; first_step = true; }

  // ---- colvarproxy overrides ----
  int setup() override;
  int reset() override;
  int set_unit_system(std::string const &units_in, bool check_only) override;
  void log(std::string const &message) override;
  void error(std::string const &message) override;
  int init_atom(int atom_number) override;
  int check_atom_id(int atom_number) override;
  void add_energy(cvm::real energy) override;
  void request_total_force(bool yesno) override;
  bool total_forces_enabled() const override;
  bool total_forces_same_step() const override;
  cvm::real rand_gaussian() override;

  int get_alch_lambda(cvm::real *lambda) override;
  int send_alch_lambda() override;
  int get_dE_dlambda(cvm::real *dE_dlambda) override;
  int apply_force_dE_dlambda(cvm::real *force) override;
  int get_d2E_dlambda2(cvm::real *d2E_dlambda2) override;

  smp_mode_t get_smp_mode() const override;
  int set_smp_mode(smp_mode_t mode) override;
  int smp_loop(int n_items, std::function<int(int)> const &worker) override;
  int smp_biases_loop() override;
  int smp_biases_script_loop() override;
  int smp_thread_id() override;
  int smp_num_threads() override;
  int smp_lock() override;
  int smp_trylock() override;
  int smp_unlock() override;

  int run_force_callback() override;
  int run_colvar_callback(std::string const &name, std::vector<const colvarvalue *> const &cvcs,
                          colvarvalue &value) override;
  int run_colvar_gradient_callback(std::string const &name,
                                   std::vector<const colvarvalue *> const &cvcs,
                                   std::vector<cvm::matrix2d<cvm::real>> &gradient) override;
  // scripted force: list of (colvar name, force) applied via colvar::add_bias_force
  std::vector<std::pair<std::string, double>> scripted_forces;
  bool scripted_force_error = false;
  // script commands (argument vectors) executed inside the scripted-forces callback
  std::vector<std::vector<std::string>> force_scripts;

  int backup_file(char const *filename) override;
  int remove_file(char const *filename) override;
  int rename_file(char const *filename, char const *newfilename) override;
  std::ostream &output_stream(std::string const &output_name, std::string const description) override;
  int flush_output_stream(std::string const &output_name) override;
  int close_output_stream(std::string const &output_name) override;

  int check_replicas_enabled() override;
  int replica_index() override;
  int num_replicas() override;
  void replica_comm_barrier() override;
  int replica_comm_recv(char *msg_data, int buf_len, int src_rep) override;
  int replica_comm_send(char *msg_data, int msg_len, int dest_rep) override;

private:
  void run_items(int n, std::function<void(int)> const &fn);
};

#endif
