#include <iostream>
#include <fstream>
#include <sstream>
#include <thread>
#include <algorithm>
#include <cmath>
#include <csignal>
#include <cstring>
#include <unistd.h>
#include <sys/types.h>
#include <sys/socket.h>

#include "vproxy.h"
#include "colvarscript.h"
#include "colvar.h"
#include "colvarbias.h"

thread_local int vproxy::tl_thread_id = 0;

vproxy::vproxy(params const &p) : P(p)
{
  version_int = get_version_from_string(COLVARS_VERSION);
  engine_name_ = "verif";
  b_simulation_running = true;
  b_simulation_continuing = false;
  updated_masses_ = updated_charges_ = true;
  if ((int)P.masses.size() != P.natoms) P.masses.assign(P.natoms, 1.0);
  if ((int)P.charges.size() != P.natoms) P.charges.assign(P.natoms, 0.0);
  pos.assign(P.natoms, cvm::rvector(0, 0, 0));
  fsys.assign(P.natoms, cvm::rvector(0, 0, 0));
  prev_total.assign(P.natoms, cvm::rvector(0, 0, 0));
  restart_frequency_engine = P.restart_freq_engine;
  set_unit_system(P.units, false);
  boundaries_type = boundaries_non_periodic;
  reset_pbc_lattice();

  colvars = new colvarmodule(this);
  colvars->cv_traj_freq = 0;
  cvm::rotation::monitor_crossings = false;
  colvars->it = colvars->it_restart = 0;
}

vproxy::~vproxy() {}

int vproxy::setup()
{
  if (colvars) return colvars->update_engine_parameters();
  return COLVARS_OK;
}

int vproxy::reset()
{
  prev_total_valid = false;
  return colvarproxy::reset();
}

int vproxy::set_unit_system(std::string const &units_in, bool check_only)
{
  if (check_only) {
    if ((units != "" && units_in != units) || (units == "" && units_in != "real")) {
      cvm::error("Specified unit system \"" + units_in +
                 "\" is incompatible with previous setting \"" + units + "\".\n");
      return COLVARS_ERROR;
    }
    return COLVARS_OK;
  }
  if (units_in == "real") {
    angstrom_value_ = 1.; kcal_mol_value_ = 1.;
  } else if (units_in == "metal") {
    angstrom_value_ = 1.; kcal_mol_value_ = 0.0433641017;
  } else if (units_in == "electron") {
    angstrom_value_ = 1.88972612; kcal_mol_value_ = 0.00159360144;
  } else if (units_in == "gromacs") {
    angstrom_value_ = 0.1; kcal_mol_value_ = 4.184;
  } else {
    cvm::error("Unknown unit system specified: \"" + units_in + "\".\n");
    return COLVARS_ERROR;
  }
  // Boltzmann constant in the chosen energy unit
  boltzmann_ = 0.001987191 * kcal_mol_value_;
  units = units_in;
  return COLVARS_OK;
}

void vproxy::log(std::string const &message)
{
  if (keep_log) {
    std::lock_guard<std::mutex> g(smp_mutex_log);
    log_lines.push_back(message);
  }
  if (!P.quiet) std::cout << "colvars: " << message;
}

void vproxy::error(std::string const &message)
{
  {
    std::lock_guard<std::mutex> g(smp_mutex_log);
    add_error_msg(message);
    err_lines.push_back(message);
  }
  if (!P.quiet) std::cerr << "colvars: " << message;
}

int vproxy::check_atom_id(int atom_number)
{
  if (atom_number <= 0 || atom_number > P.natoms) {
    cvm::error("Error: invalid atom number specified, " + cvm::to_str(atom_number) + "\n",
               COLVARS_INPUT_ERROR);
    return COLVARS_INPUT_ERROR;
  }
  return atom_number - 1;
}

int vproxy::init_atom(int atom_number)
{
  int aid = atom_number - 1;
  for (size_t i = 0; i < atoms_ids.size(); i++) {
    if (atoms_ids[i] == aid) {
      atoms_refcount[i] += 1;
      return i;
    }
  }
  aid = check_atom_id(atom_number);
  if (aid < 0) return COLVARS_INPUT_ERROR;
  int const index = add_atom_slot(aid);
  atoms_masses[index] = P.masses[aid];
  atoms_charges[index] = P.charges[aid];
  atoms_positions[index] = pos[aid];
  updated_masses_ = updated_charges_ = true;
  return index;
}

void vproxy::add_energy(cvm::real energy)
{
  E_engine += energy;
  n_add_energy++;
}

void vproxy::request_total_force(bool yesno)
{
  if (yesno && P.tf_mode == 0) {
    cvm::error("Error: total forces are not available in this engine configuration.\n",
               COLVARS_NOT_IMPLEMENTED);
    return;
  }
  total_force_requested = yesno;
}

bool vproxy::total_forces_enabled() const { return total_force_requested; }

bool vproxy::total_forces_same_step() const { return P.tf_mode == 1; }

cvm::real vproxy::rand_gaussian()
{
  if (gauss_tape.empty()) return 0.0;
  double v = gauss_tape[gauss_pos % gauss_tape.size()];
  gauss_pos++;
  return v;
}

int vproxy::get_alch_lambda(cvm::real *lambda)
{
  if (!alch_available) return COLVARS_NOT_IMPLEMENTED;
  *lambda = alch_lambda;
  return COLVARS_OK;
}
int vproxy::send_alch_lambda()
{
  if (!alch_available) return COLVARS_NOT_IMPLEMENTED;
  alch_sent++;
  alch_sent_value = cached_alch_lambda;
  alch_lambda = cached_alch_lambda;
  return COLVARS_OK;
}
int vproxy::get_dE_dlambda(cvm::real *dE_dlambda)
{
  if (!alch_available) return COLVARS_NOT_IMPLEMENTED;
  *dE_dlambda = alch_dEdl;
  return COLVARS_OK;
}
int vproxy::apply_force_dE_dlambda(cvm::real *force)
{
  if (!alch_available) return COLVARS_NOT_IMPLEMENTED;
  alch_applied_force += *force;
  return COLVARS_OK;
}
int vproxy::get_d2E_dlambda2(cvm::real *d2)
{
  if (!alch_available) return COLVARS_NOT_IMPLEMENTED;
  *d2 = alch_d2Edl2;
  return COLVARS_OK;
}

void vproxy::set_cell(int type, double lx, double ly, double lz)
{
  if (type == 0) {
    boundaries_type = boundaries_non_periodic;
    reset_pbc_lattice();
  } else {
    boundaries_type = boundaries_pbc_ortho;
    unit_cell_x.set(lx, 0, 0);
    unit_cell_y.set(0, ly, 0);
    unit_cell_z.set(0, 0, lz);
    update_pbc_lattice();
  }
}

void vproxy::set_positions_to_module()
{
  for (size_t i = 0; i < atoms_ids.size(); i++) {
    int aid = atoms_ids[i];
    atoms_positions[i] = pos[aid];
  }
}

int vproxy::step()
{
  if (first_step) {
    first_step = false;
    b_simulation_continuing = false;
    if (next_is_repeat) { b_simulation_continuing = true; next_is_repeat = false; }
  } else if (next_is_repeat) {
    b_simulation_continuing = true;
    next_is_repeat = false;
  } else {
    colvars->it++;
    b_simulation_continuing = false;
  }

  set_positions_to_module();
  // total forces
  for (size_t i = 0; i < atoms_ids.size(); i++) {
    int aid = atoms_ids[i];
    if (P.tf_mode == 1) {
      atoms_total_forces[i] = fsys[aid];
    } else if (P.tf_mode == 2) {
      atoms_total_forces[i] = prev_total_valid ? prev_total[aid] : cvm::rvector(0, 0, 0);
    } else {
      atoms_total_forces[i].reset();
    }
  }
  for (size_t i = 0; i < atoms_new_colvar_forces.size(); i++) atoms_new_colvar_forces[i].reset();
  E_engine = 0.0;
  n_add_energy = 0;
  alch_applied_force = 0.0;

  int err = colvars->calc();

  // remember what the engine will integrate with during this step
  for (int a = 0; a < P.natoms; a++) prev_total[a] = fsys[a];
  for (size_t i = 0; i < atoms_ids.size(); i++) {
    int aid = atoms_ids[i];
    if (atoms_refcount[i] > 0) prev_total[aid] += atoms_new_colvar_forces[i];
  }
  prev_total_valid = true;
  return err;
}

// ---------------- threading ----------------

colvarproxy::smp_mode_t vproxy::get_smp_mode() const
{
  return sched_mode == 0 ? smp_mode_t::none : smp_mode_t::cvcs;
}

int vproxy::set_smp_mode(smp_mode_t mode)
{
  if (mode == smp_mode_t::none) { sched_mode = 0; return COLVARS_OK; }
  if (mode == smp_mode_t::cvcs) { if (sched_mode == 0) sched_mode = 1; return COLVARS_OK; }
  return COLVARS_NOT_IMPLEMENTED;
}

void vproxy::run_items(int n, std::function<void(int)> const &fn)
{
  // Derive an order and a thread assignment from the schedule tape
  std::vector<std::pair<unsigned, int>> keyed(n);
  for (int i = 0; i < n; i++) {
    unsigned k = sched_tape.empty() ? (unsigned)i : sched_tape[(sched_pos + i) % sched_tape.size()];
    keyed[i] = std::make_pair(k, i);
  }
  sched_pos += n;
  std::vector<std::pair<unsigned, int>> order = keyed;
  if (!sched_tape.empty()) {
    std::stable_sort(order.begin(), order.end(),
                     [](std::pair<unsigned, int> const &a, std::pair<unsigned, int> const &b) {
                       return a.first < b.first;
                     });
  }
  if (sched_mode == 1 || sched_nthreads <= 1) {
    for (int j = 0; j < n; j++) fn(order[j].second);
    return;
  }
  int const nt = sched_nthreads;
  std::vector<std::vector<int>> per_thread(nt);
  for (int j = 0; j < n; j++) per_thread[(order[j].first / 7u) % nt].push_back(order[j].second);
  std::vector<std::thread> threads;
  for (int t = 1; t < nt; t++) {
    threads.emplace_back([&, t]() {
      tl_thread_id = t;
      for (int idx : per_thread[t]) fn(idx);
    });
  }
  tl_thread_id = 0;
  for (int idx : per_thread[0]) fn(idx);
  for (auto &th : threads) th.join();
}

int vproxy::smp_loop(int n_items, std::function<int(int)> const &worker)
{
  int error_code = COLVARS_OK;
  std::mutex m;
  cvm::increase_depth();
  run_items(n_items, [&](int i) {
    int const rc = worker(i);
    std::lock_guard<std::mutex> g(m);
    error_code |= rc;
  });
  cvm::decrease_depth();
  return error_code;
}

int vproxy::smp_biases_loop()
{
  colvarmodule *cv = cvm::main();
  int const n = static_cast<int>(cv->biases_active()->size());
  run_items(n, [&](int i) {
    colvarbias *b = (*(cv->biases_active()))[i];
    b->update();
  });
  return cvm::get_error();
}

int vproxy::smp_biases_script_loop()
{
  colvarmodule *cv = cvm::main();
  int const n = static_cast<int>(cv->biases_active()->size());
  // item n is the scripted-force task
  run_items(n + 1, [&](int i) {
    if (i == n) {
      cv->calc_scripted_forces();
    } else {
      colvarbias *b = (*(cv->biases_active()))[i];
      b->update();
    }
  });
  return cvm::get_error();
}

int vproxy::smp_thread_id() { return sched_mode == 0 ? -1 : tl_thread_id; }

int vproxy::smp_num_threads() { return sched_mode == 0 ? -1 : (sched_mode == 2 ? sched_nthreads : 1); }

int vproxy::smp_lock() { smp_mutex.lock(); return COLVARS_OK; }
int vproxy::smp_trylock() { return smp_mutex.try_lock() ? COLVARS_OK : COLVARS_ERROR; }
int vproxy::smp_unlock() { smp_mutex.unlock(); return COLVARS_OK; }

// ---------------- scripting callbacks ----------------

int vproxy::run_force_callback()
{
  if (scripted_force_error) return COLVARS_ERROR;
  for (auto const &p : scripted_forces) {
    colvar *cv = cvm::colvar_by_name(p.first);
    if (!cv) continue;
    colvarvalue f(cv->value());
    f.reset();
    if (f.type() == colvarvalue::type_scalar) {
      f.real_value = p.second;
    } else {
      // apply along the first component only
      f[0] = p.second;
    }
    cv->add_bias_force(f);
  }
  for (auto &args : force_scripts) {
    std::vector<unsigned char *> objv;
    for (auto &a : args) objv.push_back((unsigned char *)a.c_str());
    if (run_colvarscript_command((int)objv.size(), objv.data()) != COLVARS_OK) return COLVARS_ERROR;
  }
  return COLVARS_OK;
}

// Scripted functions understood (by name): vsum, vprod, vsumsq, verr
int vproxy::run_colvar_callback(std::string const &name,
                                std::vector<const colvarvalue *> const &cvcs, colvarvalue &value)
{
  if (name == "verr") return COLVARS_ERROR;
  double r = 0.0;
  if (name == "vsum") {
    for (auto c : cvcs) r += c->real_value;
  } else if (name == "vprod") {
    r = 1.0;
    for (auto c : cvcs) r *= c->real_value;
  } else if (name == "vsumsq") {
    for (auto c : cvcs) r += c->real_value * c->real_value;
  } else {
    return COLVARS_NOT_IMPLEMENTED;
  }
  value = colvarvalue(r);
  return COLVARS_OK;
}

int vproxy::run_colvar_gradient_callback(std::string const &name,
                                         std::vector<const colvarvalue *> const &cvcs,
                                         std::vector<cvm::matrix2d<cvm::real>> &gradient)
{
  if (name == "verr") return COLVARS_ERROR;
  size_t const n = cvcs.size();
  if (gradient.size() != n) return COLVARS_ERROR;
  for (size_t i = 0; i < n; i++) {
    double g = 0.0;
    if (name == "vsum") {
      g = 1.0;
    } else if (name == "vprod") {
      g = 1.0;
      for (size_t j = 0; j < n; j++) if (j != i) g *= cvcs[j]->real_value;
    } else if (name == "vsumsq") {
      g = 2.0 * cvcs[i]->real_value;
    } else {
      return COLVARS_NOT_IMPLEMENTED;
    }
    gradient[i][0][0] = g;
  }
  return COLVARS_OK;
}

// ---------------- file operations with fault injection ----------------

void vproxy::io_point(std::string const &what)
{
  io_op_count++;
  io_ops.push_back(what);
  if (io_die_at == io_op_count) {
    fflush(nullptr);
    kill(getpid(), SIGKILL);
  }
}

void vproxy::io_point_after(std::string const &what)
{
  if (io_die_after == io_op_count) {
    fflush(nullptr);
    kill(getpid(), SIGKILL);
  }
}

int vproxy::backup_file(char const *filename)
{
  io_point(std::string("backup ") + filename);
  int rc = colvarproxy::backup_file(filename);
  io_point_after("backup");
  return rc;
}

int vproxy::remove_file(char const *filename)
{
  io_point(std::string("remove ") + filename);
  int rc = colvarproxy::remove_file(filename);
  io_point_after("remove");
  return rc;
}

int vproxy::rename_file(char const *filename, char const *newfilename)
{
  io_point(std::string("rename ") + filename + " " + newfilename);
  int rc = colvarproxy::rename_file(filename, newfilename);
  io_point_after("rename");
  return rc;
}

std::ostream &vproxy::output_stream(std::string const &output_name, std::string const description)
{
  bool const existed = output_stream_exists(output_name);
  if (!existed) io_point("open " + output_name);
  std::ostream &os = colvarproxy::output_stream(output_name, description);
  if (!existed) io_point_after("open");
  return os;
}

int vproxy::flush_output_stream(std::string const &output_name)
{
  io_point("flush " + output_name);
  int rc = colvarproxy::flush_output_stream(output_name);
  io_point_after("flush");
  return rc;
}

int vproxy::close_output_stream(std::string const &output_name)
{
  io_point("close " + output_name);
  int rc = colvarproxy::close_output_stream(output_name);
  io_point_after("close");
  return rc;
}

// ---------------- replicas ----------------

int vproxy::check_replicas_enabled() { return rep_enabled ? COLVARS_OK : COLVARS_NOT_IMPLEMENTED; }
int vproxy::replica_index() { return rep_index; }
int vproxy::num_replicas() { return rep_num; }
void vproxy::replica_comm_barrier() {}

static bool read_all(int fd, char *buf, size_t n)
{
  size_t got = 0;
  while (got < n) {
    ssize_t r = ::read(fd, buf + got, n - got);
    if (r <= 0) return false;
    got += r;
  }
  return true;
}
static bool write_all(int fd, char const *buf, size_t n)
{
  size_t put = 0;
  while (put < n) {
    ssize_t r = ::write(fd, buf + put, n - put);
    if (r <= 0) return false;
    put += r;
  }
  return true;
}

int vproxy::replica_comm_recv(char *msg_data, int buf_len, int src_rep)
{
  if (src_rep < 0 || src_rep >= (int)rep_fds.size() || rep_fds[src_rep] < 0) return 0;
  int32_t len = 0;
  if (!read_all(rep_fds[src_rep], (char *)&len, sizeof(len))) return 0;
  std::vector<char> tmp(len);
  if (len > 0 && !read_all(rep_fds[src_rep], tmp.data(), len)) return 0;
  int n = std::min<int>(len, buf_len);
  memcpy(msg_data, tmp.data(), n);
  return n;
}

int vproxy::replica_comm_send(char *msg_data, int msg_len, int dest_rep)
{
  if (dest_rep < 0 || dest_rep >= (int)rep_fds.size() || rep_fds[dest_rep] < 0) return 0;
  int32_t len = msg_len;
  if (!write_all(rep_fds[dest_rep], (char const *)&len, sizeof(len))) return 0;
  if (!write_all(rep_fds[dest_rep], msg_data, msg_len)) return 0;
  return msg_len;
}
