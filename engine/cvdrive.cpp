// cvdrive <case> <trace>: interpret a case file against the real Colvars library through vproxy,
// writing a JSON-lines trace.  Pure function of the case file and the code.
#include <cstdio>
#include <cstdlib>
#include <cstring>
#include <csignal>
#include <cmath>
#include <algorithm>
#include <string>
#include <vector>
#include <fstream>
#include <sstream>
#include <iostream>

#include "vproxy.h"
#include "colvar.h"
#include "colvarbias.h"
#include "colvars_memstream.h"
#include "colvarscript.h"
#ifdef VERIF_DEPS_HOOK
#include "verif_access.h"
#endif

static FILE *tr = nullptr;

static std::string jnum(double v)
{
  if (std::isnan(v)) return "NaN";
  if (std::isinf(v)) return v > 0 ? "Infinity" : "-Infinity";
  char buf[40];
  snprintf(buf, sizeof(buf), "%.17g", v);
  return buf;
}

static std::string jstr(std::string const &s)
{
  std::string o = "\"";
  for (unsigned char c : s) {
    switch (c) {
    case '"': o += "\\\""; break;
    case '\\': o += "\\\\"; break;
    case '\n': o += "\\n"; break;
    case '\r': o += "\\r"; break;
    case '\t': o += "\\t"; break;
    default:
      if (c < 0x20 || c >= 0x7f) {
        char b[8];
        snprintf(b, sizeof(b), "\\u%04x", c);
        o += b;
      } else o += c;
    }
  }
  return o + "\"";
}

static std::string jvec(cvm::rvector const &v)
{
  return "[" + jnum(v.x) + "," + jnum(v.y) + "," + jnum(v.z) + "]";
}

static std::string jcv(colvarvalue const &v)
{
  std::string o = "[";
  if (v.type() == colvarvalue::type_notset) return "[]";
  cvm::vector1d<cvm::real> const a = v.as_vector();
  for (size_t i = 0; i < a.size(); i++) {
    if (i) o += ",";
    o += jnum(a[i]);
  }
  return o + "]";
}

static std::string pct_decode(std::string const &s)
{
  std::string o;
  for (size_t i = 0; i < s.size(); i++) {
    if (s[i] == '%' && i + 2 < s.size() + 0 + 1 && i + 2 <= s.size() - 1) {
      unsigned v = 0;
      if (isxdigit((unsigned char)s[i + 1]) && isxdigit((unsigned char)s[i + 2]) &&
          sscanf(s.substr(i + 1, 2).c_str(), "%2x", &v) == 1) {
        o += (char)v;
        i += 2;
        continue;
      }
    }
    o += s[i];
  }
  return o;
}

static std::vector<std::string> split_ws(std::string const &line)
{
  std::vector<std::string> out;
  std::istringstream is(line);
  std::string w;
  while (is >> w) out.push_back(w);
  return out;
}

static std::string hex_encode(unsigned char const *p, size_t n)
{
  static char const *hx = "0123456789abcdef";
  std::string o;
  o.reserve(2 * n);
  for (size_t i = 0; i < n; i++) {
    o += hx[p[i] >> 4];
    o += hx[p[i] & 15];
  }
  return o;
}

static std::vector<unsigned char> hex_decode(std::string const &s)
{
  std::vector<unsigned char> o;
  for (size_t i = 0; i + 1 < s.size(); i += 2) {
    unsigned v = 0;
    sscanf(s.substr(i, 2).c_str(), "%2x", &v);
    o.push_back((unsigned char)v);
  }
  return o;
}

static vproxy *px = nullptr;
static vproxy::params PP;
static bool binary_flag = false;

static void ensure_init()
{
  if (px) return;
  px = new vproxy(PP);
  px->colvars->binary_restart = binary_flag;
}

static std::string errs_json()
{
  std::string o = "[";
  for (size_t i = 0; i < px->err_lines.size(); i++) {
    if (i) o += ",";
    o += jstr(px->err_lines[i]);
  }
  px->err_lines.clear();
  px->clear_error_msgs();
  return o + "]";
}

static void emit_state(char const *tag, int rc)
{
  colvarmodule *cv = px->colvars;
  std::string o = std::string("{\"t\":\"") + tag + "\",\"it\":" + std::to_string((long long)cv->it) +
                  ",\"rc\":" + std::to_string(rc) + ",\"errbits\":" + std::to_string(cvm::get_error()) +
                  ",\"E\":" + jnum(px->E_engine) + ",\"nE\":" + std::to_string(px->n_add_energy);
  // atoms
  std::vector<int> const &ids = *(px->get_atom_ids());
  o += ",\"ids\":[";
  for (size_t i = 0; i < ids.size(); i++) { if (i) o += ","; o += std::to_string(ids[i]); }
  o += "],\"ref\":[";
  for (size_t i = 0; i < ids.size(); i++) { if (i) o += ","; o += std::to_string(px->atoms_refcount_at(i)); }
  o += "],\"F\":[";
  std::vector<cvm::rvector> const &F = *(px->get_atom_applied_forces());
  for (size_t i = 0; i < F.size(); i++) { if (i) o += ","; o += jvec(F[i]); }
  o += "],\"cv\":[";
  bool firstcv = true;
  for (colvar *c : *(cv->variables())) {
    if (!firstcv) o += ",";
    firstcv = false;
    o += "{\"name\":" + jstr(c->name) + ",\"x\":" + jcv(c->value()) + ",\"xa\":" + jcv(c->actual_value()) +
         ",\"type\":" + std::to_string((int)c->value().type()) + ",\"f\":" + jcv(c->applied_force());
    if (c->is_enabled(colvardeps::f_cv_total_force)) o += ",\"ft\":" + jcv(c->total_force());
    if (c->is_enabled(colvardeps::f_cv_fdiff_velocity) || c->is_enabled(colvardeps::f_cv_extended_Lagrangian))
      o += ",\"v\":" + jcv(c->velocity());
    o += ",\"active\":" + std::string(c->is_enabled() ? "1" : "0");
    o += "}";
  }
  o += "],\"bias\":[";
  bool firstb = true;
  for (colvarbias *b : px->colvars->biases) {
    if (!firstb) o += ",";
    firstb = false;
    o += "{\"name\":" + jstr(b->name) + ",\"E\":" + jnum(b->get_energy()) +
         ",\"active\":" + std::string(b->is_enabled() ? "1" : "0") + "}";
  }
  o += "],\"alchF\":" + jnum(px->alch_applied_force) + ",\"alchL\":" + jnum(px->alch_lambda);
  o += ",\"depth\":" + std::to_string((int)cvm::depth());
  o += ",\"errs\":" + errs_json() + "}\n";
  fputs(o.c_str(), tr);
  fflush(tr);
}

static void emit_simple(std::string const &tag, int rc, std::string const &extra = "")
{
  std::string o = "{\"t\":" + jstr(tag) + ",\"rc\":" + std::to_string(rc) + ",\"errbits\":" +
                  std::to_string(px ? cvm::get_error() : 0);
  if (extra.size()) o += "," + extra;
  o += ",\"errs\":" + (px ? errs_json() : std::string("[]")) + "}\n";
  fputs(o.c_str(), tr);
  fflush(tr);
}

static bool read_reals(std::vector<std::string> const &w, size_t from, std::vector<double> &out)
{
  out.clear();
  for (size_t i = from; i < w.size(); i++) {
    char *end = nullptr;
    double v = strtod(w[i].c_str(), &end);
    if (end == w[i].c_str()) return false;
    out.push_back(v);
  }
  return true;
}

// one evaluation for finite differences: new step number (advance) or repeated step
static double probe_energy(bool advance)
{
  if (advance) {
    px->step();
  } else {
    px->new_run();
    px->step();
  }
  return px->E_engine;
}

int main(int argc, char **argv)
{
  if (argc < 3) {
    fprintf(stderr, "usage: cvdrive <case> <trace|->\n");
    return 2;
  }
  std::ifstream fin;
  if (strcmp(argv[1], "-")) {
    fin.open(argv[1]);
    if (!fin) { fprintf(stderr, "cannot open case\n"); return 2; }
  }
  std::istream &in = strcmp(argv[1], "-") ? static_cast<std::istream &>(fin) : std::cin;
  tr = strcmp(argv[2], "-") ? fopen(argv[2], "w") : stdout;
  if (!tr) { fprintf(stderr, "cannot open trace\n"); return 2; }

  std::string line;
  while (std::getline(in, line)) {
    if (line.empty() || line[0] == '#') continue;
    std::vector<std::string> w = split_ws(line);
    if (w.empty()) continue;
    std::string const &cmd = w[0];
    std::vector<double> r;

    // ---- pre-init parameters ----
    if (cmd == "natoms") { PP.natoms = atoi(w[1].c_str()); continue; }
    if (cmd == "masses") { read_reals(w, 1, PP.masses); continue; }
    if (cmd == "charges") { read_reals(w, 1, PP.charges); continue; }
    if (cmd == "units") { PP.units = w[1]; continue; }
    if (cmd == "tf_mode") { PP.tf_mode = atoi(w[1].c_str()); continue; }
    if (cmd == "quiet") { PP.quiet = atoi(w[1].c_str()); continue; }
    if (cmd == "engine_restart_freq") { PP.restart_freq_engine = atoi(w[1].c_str()); continue; }
    if (cmd == "binary") {
      binary_flag = atoi(w[1].c_str());
      if (px) px->colvars->binary_restart = binary_flag;
      continue;
    }

    ensure_init();
    colvarmodule *cv = px->colvars;

    if (cmd == "keeplog") { px->keep_log = atoi(w[1].c_str()); continue; }
    if (cmd == "dumplog") {
      std::string pat = w.size() > 1 ? pct_decode(w[1]) : "";
      std::string e = "\"lines\":[";
      bool first = true;
      for (auto const &l : px->log_lines) {
        if (pat.empty() || l.find(pat) != std::string::npos) {
          if (!first) e += ",";
          first = false;
          e += jstr(l);
        }
      }
      e += "]";
      px->log_lines.clear();
      emit_simple("log", 0, e);
      continue;
    }
    if (cmd == "cell") {
      if (w[1] == "none") px->set_cell(0, 0, 0, 0);
      else { read_reals(w, 2, r); px->set_cell(1, r[0], r[1], r[2]); }
      continue;
    }
    if (cmd == "temperature") { px->set_target_temperature(strtod(w[1].c_str(), 0)); continue; }
    if (cmd == "timestep") { px->set_integration_timestep(strtod(w[1].c_str(), 0)); continue; }
    if (cmd == "gauss") { read_reals(w, 1, px->gauss_tape); px->gauss_pos = 0; continue; }
    if (cmd == "alch") {
      read_reals(w, 1, r);
      px->alch_available = true;
      px->alch_lambda = r[0];
      if (r.size() > 1) px->alch_dEdl = r[1];
      if (r.size() > 2) px->alch_d2Edl2 = r[2];
      continue;
    }
    if (cmd == "alchd") {
      // derivatives only: lambda stays what Colvars sent last
      read_reals(w, 1, r);
      px->alch_available = true;
      if (r.size() > 0) px->alch_dEdl = r[0];
      if (r.size() > 1) px->alch_d2Edl2 = r[1];
      continue;
    }
    if (cmd == "schedule") {
      px->sched_mode = atoi(w[1].c_str());
      px->sched_nthreads = atoi(w[2].c_str());
      px->sched_tape.clear();
      for (size_t i = 3; i < w.size(); i++) px->sched_tape.push_back(strtoul(w[i].c_str(), 0, 10));
      px->sched_pos = 0;
      continue;
    }
    if (cmd == "scripted_force") {
      px->scripted_forces.clear();
      for (size_t i = 1; i + 1 < w.size(); i += 2)
        px->scripted_forces.push_back(std::make_pair(pct_decode(w[i]), strtod(w[i + 1].c_str(), 0)));
      continue;
    }
    if (cmd == "replicas") {
      // replicas <index> <num> <fd to replica 0> <fd to replica 1> ... (-1 = none); inherited socket descriptors
      signal(SIGPIPE, SIG_IGN);
      px->rep_enabled = true;
      px->rep_index = atoi(w[1].c_str());
      px->rep_num = atoi(w[2].c_str());
      px->rep_fds.clear();
      for (size_t i = 3; i < w.size(); i++) px->rep_fds.push_back(atoi(w[i].c_str()));
      continue;
    }
    if (cmd == "echo") { emit_simple("echo", 0, "\"token\":" + jstr(w.size() > 1 ? w[1] : "")); continue; }
    if (cmd == "force_script") {
      // 'force_script' alone clears the list; with arguments it appends one script command
      if (w.size() == 1) { px->force_scripts.clear(); continue; }
      std::vector<std::string> a;
      for (size_t i = 1; i < w.size(); i++) a.push_back(pct_decode(w[i]));
      px->force_scripts.push_back(a);
      continue;
    }
    if (cmd == "scripted_force_error") { px->scripted_force_error = atoi(w[1].c_str()); continue; }
    if (cmd == "die_at") { px->io_die_at = atol(w[1].c_str()); continue; }
    if (cmd == "die_after") { px->io_die_after = atol(w[1].c_str()); continue; }
    if (cmd == "io_reset") { px->io_op_count = 0; px->io_ops.clear(); continue; }
    if (cmd == "io_report") {
      std::string e = "\"n\":" + std::to_string(px->io_op_count) + ",\"ops\":[";
      for (size_t i = 0; i < px->io_ops.size(); i++) { if (i) e += ","; e += jstr(px->io_ops[i]); }
      e += "]";
      emit_simple("io", 0, e);
      continue;
    }
    if (cmd == "outprefix") {
      int rc = px->set_output_prefix(pct_decode(w[1]));
      rc |= cv->setup_output();
      emit_simple("outprefix", rc);
      continue;
    }
    if (cmd == "restartprefix") {
      int rc = px->set_restart_output_prefix(pct_decode(w[1]));
      rc |= cv->setup_output();
      emit_simple("restartprefix", rc);
      continue;
    }
    if (cmd == "config") {
      // heredoc: config <<TAG
      std::string tag = w.size() > 1 && w[1].size() > 2 ? w[1].substr(2) : "END";
      std::string conf, l2;
      while (std::getline(in, l2)) {
        if (l2 == tag) break;
        conf += l2 + "\n";
      }
      int rc = cv->read_config_string(conf);
      emit_simple("config", rc,
                  "\"ncv\":" + std::to_string(cv->variables()->size()) + ",\"nbias\":" +
                      std::to_string(cv->biases.size()));
      continue;
    }
    if (cmd == "configraw") {
      // percent-encoded config (allows CR and arbitrary bytes)
      int rc = cv->read_config_string(pct_decode(w.size() > 1 ? w[1] : ""));
      emit_simple("config", rc,
                  "\"ncv\":" + std::to_string(cv->variables()->size()) + ",\"nbias\":" +
                      std::to_string(cv->biases.size()));
      continue;
    }
    if (cmd == "configfile") {
      int rc = cv->read_config_file(pct_decode(w[1]).c_str());
      emit_simple("config", rc,
                  "\"ncv\":" + std::to_string(cv->variables()->size()) + ",\"nbias\":" +
                      std::to_string(cv->biases.size()));
      continue;
    }
    if (cmd == "setup") { emit_simple("setup", px->setup()); continue; }
    if (cmd == "pos") {
      read_reals(w, 1, r);
      for (size_t a = 0; a < px->pos.size() && 3 * a + 2 < r.size(); a++)
        px->pos[a] = cvm::rvector(r[3 * a], r[3 * a + 1], r[3 * a + 2]);
      continue;
    }
    if (cmd == "posa") {
      read_reals(w, 1, r);
      px->pos[(int)r[0]] = cvm::rvector(r[1], r[2], r[3]);
      continue;
    }
    if (cmd == "fsys") {
      read_reals(w, 1, r);
      for (size_t a = 0; a < px->fsys.size(); a++) {
        if (3 * a + 2 < r.size()) px->fsys[a] = cvm::rvector(r[3 * a], r[3 * a + 1], r[3 * a + 2]);
        else px->fsys[a].reset();
      }
      continue;
    }
    if (cmd == "fsys_feedback") {
      // feed back as the system force exactly (scale x) what Colvars applied in the last step
      double s = w.size() > 1 ? strtod(w[1].c_str(), 0) : 1.0;
      for (auto &f : px->fsys) f.reset();
      std::vector<int> const &ids = *(px->get_atom_ids());
      std::vector<cvm::rvector> const &F = *(px->get_atom_applied_forces());
      for (size_t i = 0; i < ids.size(); i++) px->fsys[ids[i]] += s * F[i];
      continue;
    }
    if (cmd == "step") {
      int n = w.size() > 1 ? atoi(w[1].c_str()) : 1;
      for (int i = 0; i < n; i++) {
        int rc = px->step();
        emit_state("step", rc);
      }
      continue;
    }
    if (cmd == "stepq") {
      // quiet steps (no trace record)
      int n = w.size() > 1 ? atoi(w[1].c_str()) : 1;
      for (int i = 0; i < n; i++) px->step();
      continue;
    }
    if (cmd == "stepat") {
      // evaluate at an explicit step number (no increment)
      long long itn = atoll(w[1].c_str());
      cv->it = itn;
      px->first_step = true;
      int rc = px->step();
      emit_state("step", rc);
      continue;
    }
    if (cmd == "newrun") { px->new_run(); continue; }
    if (cmd == "setstep") { px->set_step(atol(w[1].c_str())); continue; }
    if (cmd == "fd") {
      // fd <h> <advance 0|1> : finite differences of E_engine over all requested atoms
      double h = strtod(w[1].c_str(), 0);
      bool advance = w.size() > 2 ? atoi(w[2].c_str()) : false;
      double E0 = probe_energy(advance);
      std::vector<int> ids = *(px->get_atom_ids());
      std::vector<cvm::rvector> F0 = *(px->get_atom_applied_forces());
      if (w.size() > 3) {
        // adaptive step: keep the first-order energy change below eta*max(1,|E0|)
        double const eta = strtod(w[3].c_str(), 0);
        double fmax = 0.0;
        for (auto const &f : F0) fmax = std::max(fmax, std::sqrt(f.norm2()));
        if (fmax > 0.0) h = std::min(h, eta * std::max(1.0, std::fabs(E0)) / fmax);
      }
      std::string o = "{\"t\":\"fd\",\"h\":" + jnum(h) + ",\"E0\":" + jnum(E0) + ",\"errbits\":" +
                      std::to_string(cvm::get_error()) + ",\"ids\":[";
      for (size_t i = 0; i < ids.size(); i++) { if (i) o += ","; o += std::to_string(ids[i]); }
      o += "],\"F0\":[";
      for (size_t i = 0; i < F0.size(); i++) { if (i) o += ","; o += jvec(F0[i]); }
      o += "],\"D\":[";
      std::string noise = "[";
      // for all engine atoms (also those not requested: energy must not depend on them)
      for (int a = 0; a < px->P.natoms; a++) {
        if (a) o += ",";
        o += "[";
        for (int d = 0; d < 3; d++) {
          cvm::rvector const save = px->pos[a];
          double e[6];
          double const hs[6] = {h, -h, 0.5 * h, -0.5 * h, 0.25 * h, -0.25 * h};
          for (int k = 0; k < 6; k++) {
            px->pos[a] = save;
            px->pos[a][d] += hs[k];
            e[k] = probe_energy(advance);
          }
          // rounding noise of the energy as a function of this coordinate: displacements too small to change the energy
          // otherwise than through its slope resample
          // the rounding errors of the evaluation (e.g. a variable that is a difference of large terms is quantised)
          double nz = 0.0;
          double const ts[4] = {1.0e-7 * h, 1.0e-3 * h, -1.0e-3 * h, 2.5e-3 * h};
          // slope from the differences themselves (never from the applied force, whose error is what is being measured)
          double const slope = (4.0 * (e[4] - e[5]) / (0.5 * h) - (e[2] - e[3]) / h) / 3.0;
          for (int k = 0; k < 4; k++) {
            px->pos[a] = save;
            px->pos[a][d] += ts[k];
            nz = std::max(nz, std::fabs(probe_energy(advance) - E0 - slope * ts[k]));
          }
          if (a || d) noise += ",";
          noise += jnum(nz);
          px->pos[a] = save;
          if (d) o += ",";
          o += "[" + jnum(e[0]) + "," + jnum(e[1]) + "," + jnum(e[2]) + "," + jnum(e[3]) + "," + jnum(e[4]) + "," + jnum(e[5]) + "]";
        }
        o += "]";
      }
      // re-evaluate at the base point, to leave the module in the base state and to
      // check that the energy did not drift while probing (frozen-state assumption)
      double E1 = probe_energy(advance);
      o += "],\"N\":" + noise + "]" + ",\"E1\":" + jnum(E1) + ",\"errs\":" + errs_json() + "}\n";
      fputs(o.c_str(), tr);
      fflush(tr);
      continue;
    }
    if (cmd == "post_run") { emit_simple("post_run", px->post_run()); continue; }
    if (cmd == "write_output") { emit_simple("write_output", cv->write_output_files()); continue; }
    if (cmd == "save") {
      int rc = cv->write_restart_file(pct_decode(w[1]));
      emit_simple("save", rc);
      continue;
    }
    if (cmd == "savestr") {
      std::string s;
      int rc = cv->write_restart_string(s);
      emit_simple("savestr", rc, "\"state\":" + jstr(s));
      continue;
    }
    if (cmd == "savebuf") {
      cvm::memory_stream ms;
      bool ok = bool(cv->write_state(ms));
      emit_simple("savebuf", ok ? 0 : 1, "\"hex\":" + jstr(hex_encode(ms.output_buffer(), ms.length())));
      continue;
    }
    if (cmd == "load") {
      int rc = px->set_input_prefix(pct_decode(w[1]));
      rc |= cv->setup_input();
      emit_simple("load", rc, "\"it\":" + std::to_string((long long)cv->it));
      continue;
    }
    if (cmd == "loadstr") {
      px->input_stream_from_string("input state string", pct_decode(w.size() > 1 ? w[1] : ""));
      int rc = cv->setup_input();
      emit_simple("load", rc, "\"it\":" + std::to_string((long long)cv->it));
      continue;
    }
    if (cmd == "loadbuf") {
      std::vector<unsigned char> b = hex_decode(w.size() > 1 ? w[1] : "");
      int rc = cv->set_input_state_buffer(b);
      rc |= cv->setup_input();
      emit_simple("load", rc, "\"it\":" + std::to_string((long long)cv->it));
      continue;
    }
    if (cmd == "script") {
      std::vector<std::string> args;
      for (size_t i = 1; i < w.size(); i++) args.push_back(pct_decode(w[i]));
      std::vector<unsigned char *> objv;
      for (auto &a : args) objv.push_back((unsigned char *)a.c_str());
      int rc = run_colvarscript_command((int)objv.size(), objv.data());
      char const *res = get_colvarscript_result();
      emit_simple("script", rc, "\"result\":" + jstr(res ? res : ""));
      continue;
    }
    if (cmd == "reset") { emit_simple("reset", cv->reset()); continue; }
    if (cmd == "clear_error") { cvm::clear_error(); continue; }
    if (cmd == "atoms") {
      std::string e = "\"nactive\":" + std::to_string(px->get_num_active_atoms()) +
                      ",\"tf_requested\":" + std::string(px->total_forces_enabled() ? "1" : "0");
      emit_simple("atoms", 0, e);
      continue;
    }
#ifdef VERIF_DEPS_HOOK
    if (cmd == "depsdump") {
      emit_simple("depsdump", 0, "\"dump\":" + jstr(colvars_verif_access::dump(cv)));
      continue;
    }
    if (cmd == "deps") {
      std::string rep = colvars_verif_access::check_all(cv);
      emit_simple("deps", rep.empty() ? 0 : 1, "\"report\":" + jstr(rep));
      continue;
    }
#endif
    if (cmd == "delete_proxy") {
      delete px;
      px = nullptr;
      continue;
    }
    if (cmd == "exit") break;
    fprintf(stderr, "cvdrive: unknown command '%s'\n", cmd.c_str());
    return 3;
  }
  if (px) {
    fputs("{\"t\":\"end\"}\n", tr);
    fflush(tr);
    delete px;
  }
  if (tr != stdout) fclose(tr);
  return 0;
}
