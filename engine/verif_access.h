// Read-only inspection of the colvardeps graph through the COLVARS_VERIF friend hook (C13).
#ifndef VERIF_ACCESS_H
#define VERIF_ACCESS_H
#include <set>
#include <sstream>
#include "colvarmodule.h"
#include "colvar.h"
#include "colvarbias.h"
#include "colvardeps.h"

struct colvars_verif_access {
  static void visit(colvardeps *o, std::set<colvardeps *> &seen, std::set<colvardeps *> const &live_roots, std::ostringstream &rep, int depth)
  {
    if (!o || seen.count(o) || depth > 6) return;
    seen.insert(o);
    std::vector<colvardeps::feature *> const &F = o->features();
    size_t const n = std::min(F.size(), o->feature_states.size());
    bool const active = n > 0 && o->feature_states[0].enabled;
    for (size_t f = 0; f < n; f++) {
      colvardeps::feature_state const &fs = o->feature_states[f];
      if (fs.ref_count < 0) rep << o->description << ": feature '" << F[f]->description << "' has negative ref_count " << fs.ref_count << "\n";
      if (!fs.enabled) continue;
      for (int r : F[f]->requires_self) {
        if (!o->feature_states[r].enabled)
          rep << o->description << ": '" << F[f]->description << "' is enabled but its prerequisite '" << F[r]->description << "' is not\n";
      }
      for (int x : F[f]->requires_exclude) {
        if (o->feature_states[x].enabled)
          rep << o->description << ": mutually exclusive '" << F[f]->description << "' and '" << F[x]->description << "' are both enabled\n";
      }
      for (auto const &alt : F[f]->requires_alt) {
        bool any = false;
        for (int a : alt) any = any || o->feature_states[a].enabled;
        if (!any && !alt.empty()) rep << o->description << ": '" << F[f]->description << "' is enabled but none of its alternative prerequisites is\n";
      }
      if (active) {
        for (int g : F[f]->requires_children) {
          for (colvardeps *c : o->children) {
            if (c && (size_t)g < c->feature_states.size() && !c->feature_states[g].enabled)
              rep << o->description << ": '" << F[f]->description << "' requires '" << c->features()[g]->description
                  << "' in child " << c->description << ", which is disabled\n";
          }
        }
      }
    }
    // reference counts: every enabled capability is held at least once by each live requirement on it (a count that is too low
    // lets it be switched off while something still needs it)
    for (size_t r = 0; r < n; r++) {
      if (!o->feature_states[r].enabled) continue;
      int needed = 0;
      for (size_t f = 0; f < n; f++) {
        if (!o->feature_states[f].enabled || f == r) continue;
        for (int q : F[f]->requires_self) if (q == (int)r) needed++;
        for (int q : o->feature_states[f].alternate_refs) if (q == (int)r) needed++;
      }
      for (colvardeps *p : o->parents) {
        if (!p || p->feature_states.empty() || !p->feature_states[0].enabled) continue;
        std::vector<colvardeps::feature *> const &PF = p->features();
        for (size_t f = 0; f < PF.size() && f < p->feature_states.size(); f++) {
          if (!p->feature_states[f].enabled) continue;
          for (int q : PF[f]->requires_children) if (q == (int)r) needed++;
        }
      }
      if (o->feature_states[r].ref_count < needed)
        rep << o->description << ": '" << F[r]->description << "' has ref_count " << o->feature_states[r].ref_count
            << " but " << needed << " live requirements hold it\n";
    }
    // children / parents mutually consistent
    for (colvardeps *c : o->children) {
      if (!c) { rep << o->description << ": null child\n"; continue; }
      bool back = false;
      for (colvardeps *p : c->parents) back = back || (p == o);
      if (!back) rep << o->description << ": child " << c->description << " does not list it as a parent\n";
    }
    for (colvardeps *p : o->parents) {
      if (!p) { rep << o->description << ": null parent\n"; continue; }
      bool fwd = false;
      for (colvardeps *c : p->children) fwd = fwd || (c == o);
      if (!fwd) rep << o->description << ": parent " << p->description << " does not list it as a child\n";
    }
    for (colvardeps *c : o->children) visit(c, seen, live_roots, rep, depth + 1);
  }

  static std::string dump(colvarmodule *cv)
  {
    std::ostringstream o;
    std::vector<colvardeps *> objs;
    for (colvarbias *b : cv->biases) objs.push_back(b);
    for (colvar *c : *(cv->variables())) objs.push_back(c);
    for (colvardeps *d : objs) {
      o << d->description << ":";
      for (size_t f = 0; f < d->feature_states.size() && f < d->features().size(); f++) {
        if (d->feature_states[f].enabled) o << " " << d->features()[f]->description << "(" << d->feature_states[f].ref_count << ")";
      }
      o << " parents=" << d->parents.size() << " children=" << d->children.size() << "\n";
    }
    return o.str();
  }

  static std::string check_all(colvarmodule *cv)
  {
    std::ostringstream rep;
    std::set<colvardeps *> seen, roots;
    for (colvarbias *b : cv->biases) roots.insert(b);
    for (colvar *c : *(cv->variables())) roots.insert(c);
    // every parent of a live variable must be a live bias (no reference to a deleted object)
    for (colvar *c : *(cv->variables())) {
      for (colvardeps *p : static_cast<colvardeps *>(c)->parents) {
        if (!roots.count(p)) rep << c->name << ": has a parent that is not a live bias or variable\n";
      }
    }
    for (colvardeps *r : roots) visit(r, seen, roots, rep, 0);
    return rep.str();
  }
};
#endif
