#!/usr/bin/env python3
"""Sensitivity sweep (development tool, not registered in MANIFEST): applies small semantic mutations to /repo/src one at
a time, runs the quick check of the property it targets, expects VIOLATION, and restores the file (git checkout).
usage: mutate.py [mutant-id ...]   (no args: all)"""
import json
import os
import subprocess
import sys
import time

REPO = "/repo"
M = [
    # id, property, file, old, new
    ("c04_forcebin_L", "C04", "src/colvarbias_abf.cpp", "  force_bin = bin;\n\n\n  // ****", "  // force_bin = bin;\n\n\n  // ****"),
    ("c04_no_own_subtract", "C04", "src/colvarbias_abf.cpp", "      system_force[i] = colvars[i]->total_force().real_value\n        - colvar_forces[i].real_value;", "      system_force[i] = colvars[i]->total_force().real_value;"),
    ("c04_ramp_le", "C04", "src/colvargrid.h", "    if ( weight <= min_samples ) {\n      fact = 0.0;", "    if ( weight < min_samples ) {\n      fact = 0.0;"),
    ("c04_no_periodic_average", "C04", "src/colvarbias_abf.cpp", "      force[0] = force[0] - gradients->average();", "      force[0] = force[0];"),
    ("c04_sample_step0", "C04", "src/colvarbias.cpp", "  if (((cvm::step_relative() > 0) && !proxy->simulation_continuing()) ||", "  if (((cvm::step_relative() >= 0) && !proxy->simulation_continuing()) ||"),
    ("c01_distance_sign", "C01", "src/colvarcomp_distances.cpp", "  group2->set_weighted_gradient(       u);", "  group2->set_weighted_gradient(-1.0 * u);"),
    ("c01_restraint_width", "C01", "src/colvarbias_restraint.cpp", "  return -0.5 * force_k / (variables(i)->width * variables(i)->width) *", "  return -0.5 * force_k / (variables(i)->width) *"),
    ("c02_round_floor", "C02", "src/colvarproxy_system.cpp", "  return int(cvm::floor(x+0.5));", "  return int(cvm::floor(x));"),
    ("c18_wrap_half", "C18", "src/colvarcomp.cpp", "    cvm::real const shift = cvm::floor((x_unwrapped.real_value - wrap_center) / period + 0.5);", "    cvm::real const shift = cvm::floor((x_unwrapped.real_value - wrap_center) / period);"),
    ("c11_writevector", "C11", "src/colvars_memstream.h", "    incr_write_pos(sizeof(size_t));\n    std::memcpy(output_location(), t.data(), t.size() * sizeof(T));", "    incr_write_pos(sizeof(T));\n    std::memcpy(output_location(), t.data(), t.size() * sizeof(T));"),
]


def run(cmd, **kw):
    return subprocess.run(cmd, shell=True, stdout=subprocess.PIPE, stderr=subprocess.STDOUT, **kw).stdout.decode("utf-8", "replace")


def main():
    want = set(sys.argv[1:])
    extra = os.path.join(os.path.dirname(__file__), "mutants_extra.json")
    muts = list(M)
    if os.path.exists(extra):
        muts += [tuple(x) for x in json.load(open(extra))]
    res = []
    for mid, prop, f, old, new in muts:
        if want and mid not in want:
            continue
        path = os.path.join(REPO, f)
        s = open(path).read()
        if s.count(old) != 1:
            res.append((mid, prop, "PATTERN-NOT-UNIQUE(%d)" % s.count(old)))
            continue
        open(path, "w").write(s.replace(old, new))
        t0 = time.time()
        try:
            out = run("cd /verif && python3-vt checks/run.py %s --tier quick" % prop)
        finally:
            run("git -C /repo checkout -- %s" % f)
        verdict = "CAUGHT" if "VIOLATION property=%s" % prop in out else ("BUILD-FAILED" if "BUILD-FAILED" in out else "MISSED")
        first = [l for l in out.splitlines() if l.startswith("  part=")][:1]
        res.append((mid, prop, verdict + " (%.0fs) %s" % (time.time() - t0, first[0][:160] if first else "")))
        print(res[-1], flush=True)
    run("cd /verif && make -s -j16 rel")
    print("\nSUMMARY")
    for r in res:
        print(" ", r)


if __name__ == "__main__":
    main()
