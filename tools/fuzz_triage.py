#!/usr/bin/env python3
"""Development helper: run a libFuzzer target for N seconds (fork mode) and print distinct crash signatures.
usage: fuzz_triage.py <target> <seconds> [forks]"""
import glob, os, shutil, subprocess, sys, tempfile
sys.path.insert(0, "/verif/checks")
from lib import fuzzrun
target, secs = sys.argv[1], int(sys.argv[2])
forks = int(sys.argv[3]) if len(sys.argv) > 3 else 8
exe = fuzzrun.build(target)
work = tempfile.mkdtemp(prefix="vf_tri_")
corp, arts = work + "/c", work + "/a"
os.makedirs(corp); os.makedirs(arts)
args = [exe, "-fork=%d" % forks, "-ignore_crashes=1", "-ignore_timeouts=1", "-ignore_ooms=1", "-max_total_time=%d" % secs,
        "-timeout=25", "-rss_limit_mb=4096", "-artifact_prefix=" + arts + "/", corp]
if target == "fuzz_config":
    args += ["-dict=/verif/build/fuzz/config.dict", "-max_len=4096", "/verif/build/fuzz/seed_config"]
elif target == "fuzz_state":
    seeds = work + "/seeds"; os.makedirs(seeds)
    env = fuzzrun.fenv(); env["VF_DUMP_SEEDS"] = seeds
    subprocess.run([exe], env=env, stdout=subprocess.DEVNULL, stderr=subprocess.DEVNULL)
    args += ["-max_len=70000", seeds]
else:
    args += ["-max_len=512"]
subprocess.run(args, env=fuzzrun.fenv(), cwd=work, stdout=open(work + "/log", "w"), stderr=subprocess.STDOUT)
sigs = {}
for a in sorted(glob.glob(arts + "/crash-*") + glob.glob(arts + "/leak-*"))[:500]:
    c, err = fuzzrun.reproduce(exe, a, runs=1)
    if c:
        sigs.setdefault(fuzzrun.signature(err), []).append(a)
keep = "/tmp/t/tri_" + target
shutil.rmtree(keep, ignore_errors=True); os.makedirs(keep)
for s, v in sigs.items():
    dst = keep + "/" + os.path.basename(v[0])
    shutil.copy(v[0], dst)
    print(len(v), s, dst)
print("timeouts:", len(glob.glob(arts + "/timeout-*")), "ooms:", len(glob.glob(arts + "/oom-*")))
print(open(work + "/log").read()[-400:])
shutil.rmtree(work, ignore_errors=True)
