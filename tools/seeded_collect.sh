#!/bin/sh
# copies the deliverables of a seeding agent (worktree /tmp/seedwt_<ID>/seeded_out/<k>) to /verif/seeded/<ID>-<k+offset>
# usage: seeded_collect.sh <ID> [offset]     (second round of agents: offset 2)
ID=$1
OFF=${2:-0}
for k in 1 2 3; do
  src=/tmp/seedwt_$ID/seeded_out/$k
  [ -f $src/patch.diff ] || continue
  dst=/verif/seeded/$ID-$((k + OFF))
  mkdir -p $dst
  cp $src/patch.diff $dst/
  [ -f $src/meta.json ] && cp $src/meta.json $dst/
  [ -f $src/demonstration.md ] && cp $src/demonstration.md $dst/
  # small auxiliary inputs of the demonstration (configs), not outputs
  for f in $src/*; do
    case "$f" in *.in|*.py|*.conf|*.cpp|*.sh|*.txt) [ $(stat -c %s "$f") -lt 20000 ] && cp "$f" $dst/ ;; esac
  done
done
ls /verif/seeded | grep "^$ID-"
