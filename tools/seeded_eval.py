#!/usr/bin/env python3
"""Applies each seeded change (seeded/<name>/patch.diff) to /repo, runs the checks named on the command line (default: the
check of the property the change targets, quick tier), records what was caught in seeded/<name>/result.json and restores
the tree.  Development tool, not registered in MANIFEST.
usage: seeded_eval.py [--tier quick|thorough] [--checks C01,C02] [--seeds 1,2] [name ...]"""
import argparse
import json
import os
import re
import subprocess
import sys
import time

V = "/verif"


def sh(cmd, **kw):
    return subprocess.run(cmd, shell=True, stdout=subprocess.PIPE, stderr=subprocess.STDOUT, **kw).stdout.decode("utf-8", "replace")


def main():
    ap = argparse.ArgumentParser()
    ap.add_argument("names", nargs="*")
    ap.add_argument("--tier", default="quick")
    ap.add_argument("--checks", default="")
    ap.add_argument("--seeds", default="1")
    a = ap.parse_args()
    names = a.names or sorted(os.listdir(os.path.join(V, "seeded")))
    if sh("git -C /repo status --short -- src").strip():
        print("refusing: /repo/src has uncommitted changes")
        return 2
    for name in names:
        d = os.path.join(V, "seeded", name)
        patch = os.path.join(d, "patch.diff")
        if not os.path.exists(patch):
            continue
        prop = name.split("-")[0]
        checks = a.checks.split(",") if a.checks else [prop]
        chk = sh("git -C /repo apply --check %s" % patch)
        if chk.strip():
            print(name, "PATCH-DOES-NOT-APPLY", chk[:200])
            continue
        sh("git -C /repo apply %s" % patch)
        res = {}
        try:
            for c in checks:
                for seed in a.seeds.split(","):
                    t0 = time.time()
                    out = sh("cd /verif && VERIF_SEED=%s python3-vt checks/run.py %s --tier %s" % (seed, c, a.tier))
                    viol = [l for l in out.splitlines() if l.startswith("VIOLATION property=")]
                    first = [l.strip() for l in out.splitlines() if l.startswith("  part=")][:1]
                    verdict = "CAUGHT" if viol else ("BUILD-FAILED" if "BUILD-FAILED" in out else ("BROKEN" if "HARNESS-ERROR" in out else "MISSED"))
                    res["%s/%s/seed%s" % (c, a.tier, seed)] = {"verdict": verdict, "first": first[0][:300] if first else "", "wall_s": round(time.time() - t0, 1)}
                    print(name, c, a.tier, "seed", seed, verdict, first[0][:160] if first else "", flush=True)
                    if viol:
                        break
        finally:
            sh("git -C /repo checkout -- src")
            sh("rm -f /verif/replays/%s-*" % prop)
        rp = os.path.join(d, "result.json")
        old = json.load(open(rp)) if os.path.exists(rp) else {}
        old.update(res)
        json.dump(old, open(rp, "w"), indent=1)
    sh("cd /verif && make -s -j16 rel")
    return 0


if __name__ == "__main__":
    sys.exit(main())
