#!/usr/bin/env python3
"""Regenerates the table of seeded changes at the end of DESIGN.md from seeded/*/{meta,result}.json."""
import json
import os

V = "/verif"
MARK = "<!-- seeded-table -->"


def main():
    rows = ["| change | what it breaks | caught by (latest runs) |", "|---|---|---|"]
    for d in sorted(os.listdir(os.path.join(V, "seeded"))):
        try:
            m = json.load(open(os.path.join(V, "seeded", d, "meta.json")))
        except Exception:
            m = {}
        try:
            r = json.load(open(os.path.join(V, "seeded", d, "result.json")))
        except Exception:
            r = {}
        caught = sorted(k for k, x in r.items() if x["verdict"] == "CAUGHT")
        missed = sorted(k for k, x in r.items() if x["verdict"] == "MISSED")
        what = ""
        for k in caught[-1:]:
            what = r[k]["first"].split(":")[0].replace("part=", "") + " " + (r[k]["first"].split("sig=")[1].split(":")[0] if "sig=" in r[k]["first"] else "")
        cell = ("**caught** %s (%s)" % (", ".join(caught), what.strip())) if caught else "missed"
        if missed and caught:
            cell += "; missed: " + ", ".join(missed)
        elif missed:
            cell = "missed (%s)" % ", ".join(missed)
        rows.append("| %s | %s | %s |" % (d, (m.get("title") or "").replace("|", "/")[:150], cell))
    p = os.path.join(V, "DESIGN.md")
    s = open(p).read()
    if MARK in s:
        s = s[:s.index(MARK)]
    s = s.rstrip("\n") + "\n\n" + MARK + "\n### Seeded changes: verdicts\n\n" + "\n".join(rows) + "\n"
    open(p, "w").write(s)
    print("\n".join(rows[:5]))


if __name__ == "__main__":
    main()
