#!/usr/bin/env python3
"""Regenerates /verif/MANIFEST.json from the table below (keeps the manifest valid at all times)."""
import json
import os
import subprocess

V = "/verif"
ALL = ["C%02d" % i for i in range(1, 21)]

CHECKS = {
    "C01": dict(
        technique="property-based testing (Hypothesis): generated systems/variables/biases; oracle = Richardson finite differences of the engine-visible energy vs applied atomic forces",
        level="exploration",
        text="Generated-input search (thousands of configurations per run over the component/option/bias tables) against a finite-difference oracle computed from the energy the engine receives; catches any force/energy inconsistency above ~1e-6..1e-3 relative in the explored class, establishes nothing outside it.",
        note="Trusts the engine simulator (checks/../engine/vproxy.cpp), finite differences (errors below ~1e-6 relative are invisible), generated geometries away from singular points (detected kinks are counted, not asserted).",
        design="DESIGN.md section 4 C01"),
}

PENDING_REASON = "check under construction in this session; not claimed until it runs green on the unchanged tree"


def main():
    hooks_commits = []
    m = {
        "version": 1,
        "setup_cmd": "make -s -j16 -C /verif rel",
        "hooks": {
            "guard": "COLVARS_VERIF",
            "enable": "make -C /verif compiles /repo/src/*.cpp with -DCOLVARS_VERIF into /verif/build/<variant>/",
            "baseline_off_cmd": "cmake --build /repo/_build -j16 && ctest --test-dir /repo/_build -j8 --timeout 900",
            "source_commits": hooks_commits,
            "add_only": True,
        },
        "engines": [
            {"name": "vproxy+cvdrive", "path": "engine/", "serves_properties": sorted(CHECKS),
             "kind_free_text": "engine simulator (colvarproxy subclass) + case-file interpreter; one process per case"},
        ],
        "checks": [],
        "not_applicable": [],
        "notes": "All checks: python3-vt checks/run.py <ID> --tier quick|thorough; they rebuild /repo/src from the working tree first. Known findings: known_findings.json.",
    }
    for pid in ALL:
        if pid in CHECKS:
            c = CHECKS[pid]
            m["checks"].append({
                "property_id": pid,
                "quick_cmd": "python3-vt checks/run.py %s --tier quick" % pid,
                "thorough_cmd": "python3-vt checks/run.py %s --tier thorough" % pid,
                "evidence_file": "/verif/evidence/%s.json" % pid,
                "replay_cmd_template": "python3-vt checks/run.py %s --replay {path}" % pid,
                "engine": c.get("engine", "vproxy+cvdrive"),
                "level_claimed": {"category": c["level"], "text": c["text"], "design_ref": c["design"]},
                "level_note": c["note"],
                "technique": c["technique"],
            })
        else:
            m["not_applicable"].append({"property_id": pid, "reason": PENDING_REASON})
    json.dump(m, open(os.path.join(V, "MANIFEST.json"), "w"), indent=1)
    try:
        import jsonschema
        jsonschema.validate(m, json.load(open("/root/.vp/MANIFEST.schema.json")))
        print("MANIFEST.json valid; claimed:", sorted(CHECKS))
    except ImportError:
        print("written (jsonschema not available for validation)")


if __name__ == "__main__":
    main()
