#!/usr/bin/env python3
"""Regenerates /verif/MANIFEST.json from the table below (keeps the manifest valid at all times)."""
import json
import os
import subprocess

V = "/verif"
ALL = ["C%02d" % i for i in range(1, 21)]

CHECKS = {
    "C01": dict(
        technique="property-based testing (Hypothesis): generated systems/variables/biases; oracle = Richardson finite differences of the engine-visible energy vs applied atomic forces",
        level="exploration",
        text="Generated-input search (thousands of configurations per run over the component/option/bias tables) against a finite-difference oracle computed from the energy the engine receives; catches any force/energy inconsistency above ~1e-6..1e-3 relative in the explored class, establishes nothing outside it.",
        note="Trusts the engine simulator (checks/../engine/vproxy.cpp), finite differences (errors below ~1e-6 relative are invisible), generated geometries away from singular points (detected kinks are counted, not asserted).",
        design="DESIGN.md section 4 C01"),
    "C02": dict(
        technique="property-based testing (Hypothesis): independent numpy reference model of each documented formula + metamorphic relations (rigid motion, lattice translation, permutation/duplicates, quaternion sign, least-squares optimality)",
        level="exploration",
        text="Thousands of generated systems/variables per run compared with an independent implementation (Kabsch/SVD for fitted quantities) and under generated symmetry transformations; finds value errors above 1e-9 (1e-7 fitted) in the explored component/option table.",
        note="Trusts the reference model (checks/lib/refmodel.py, written from the manual) and the engine simulator; path/protein components are not in the table.",
        design="DESIGN.md section 4 C02"),
    "C04": dict(
        technique="model-based property testing (Hypothesis): Python model of the ABF estimator co-evaluated on generated value/force histories under both force-timing conventions",
        level="exploration",
        text="Generated histories (values entering/leaving the grid, system forces, other biases, run boundaries) against an executable model: applied force at every step and the samples/gradient arrays of the saved state; exact counts, rel 1e-10 forces.",
        note="Controlled variables (z of one atom; no Jacobian term); model written from the manual and property text; eABF/CZAR/pABF not modelled.",
        design="DESIGN.md section 4 C04"),
    "C05": dict(
        technique="model-based property testing (Hypothesis): reference model of hill deposition/tabulation compared with bias energy and forces at every step",
        level="exploration",
        text="Generated trajectories incl. excursions beyond the grid, hill schedules, well-tempered heights, grids on/off, delayed tabulation, keepHills, expandBoundaries; energy and per-variable force compared at every step (rel 1e-9; 2e-4*sum(W) outside the grid where the code truncates Gaussian tails).",
        note="Controlled scalar variables (1-2); non-scalar variables and rebinning on restart are not in this check; hill widths >= one grid spacing.",
        design="DESIGN.md section 4 C05"),
    "C06": dict(
        technique="property-based testing (Hypothesis): closed-form potentials, schedule as a function of the step number recovered from energy+force, work/TI recomputed from the trace, cut-and-restart differential",
        level="exploration",
        text="Potentials of harmonic/walls/linear over every value type and the ABMD ratchet against the manual's closed forms; centre/force-constant schedules (continuous, staged, lambdaSchedule, decoupling, exponent) at every step; accumulated work; staged TI means; independence from run segmentation via restart at a generated step.",
        note="Schedules exercised on a controlled scalar variable; the phase of the TI equilibration window is accepted in either of the two readings the manual allows.",
        design="DESIGN.md section 4 C06"),
    "C18": dict(
        technique="property-based testing (rapidcheck, direct API): metric axioms, tangent-space finite differences, closed-form minimum image, wrap interval",
        level="exploration",
        text="Millions of generated value pairs per run for every value type and for periodic variables built through the configuration path (component period and scripted period with wrapAround); asserts the stated metric/gradient/wrap/interpolation laws.",
        note="Gradients compared away from the cut locus; distinct_nontrivial counts generated real-valued pairs (practically all distinct).",
        design="DESIGN.md section 4 C18", engine="rapidcheck targets (rc/)"),
}

PENDING_REASON = "check under construction in this session; not claimed until it runs green on the unchanged tree"


def main():
    hooks_commits = []
    m = {
        "version": 1,
        "setup_cmd": "make -s -j16 -C /verif rel",
        "hooks": {
            "guard": "COLVARS_VERIF",
            "enable": "make -C /verif compiles /repo/src/*.cpp with -DCOLVARS_VERIF into /verif/build/<variant>/",
            "baseline_off_cmd": "cmake --build /repo/_build -j16 && ctest --test-dir /repo/_build -j8 --timeout 900",
            "source_commits": hooks_commits,
            "add_only": True,
        },
        "engines": [
            {"name": "vproxy+cvdrive", "path": "engine/", "serves_properties": sorted(CHECKS),
             "kind_free_text": "engine simulator (colvarproxy subclass) + case-file interpreter; one process per case"},
        ],
        "checks": [],
        "not_applicable": [],
        "notes": "All checks: python3-vt checks/run.py <ID> --tier quick|thorough; they rebuild /repo/src from the working tree first. Known findings: known_findings.json.",
    }
    for pid in ALL:
        if pid in CHECKS:
            c = CHECKS[pid]
            m["checks"].append({
                "property_id": pid,
                "quick_cmd": "python3-vt checks/run.py %s --tier quick" % pid,
                "thorough_cmd": "python3-vt checks/run.py %s --tier thorough" % pid,
                "evidence_file": "/verif/evidence/%s.json" % pid,
                "replay_cmd_template": "python3-vt checks/run.py %s --replay {path}" % pid,
                "engine": c.get("engine", "vproxy+cvdrive"),
                "level_claimed": {"category": c["level"], "text": c["text"], "design_ref": c["design"]},
                "level_note": c["note"],
                "technique": c["technique"],
            })
        else:
            m["not_applicable"].append({"property_id": pid, "reason": PENDING_REASON})
    json.dump(m, open(os.path.join(V, "MANIFEST.json"), "w"), indent=1)
    try:
        import jsonschema
        jsonschema.validate(m, json.load(open("/root/.vp/MANIFEST.schema.json")))
        print("MANIFEST.json valid; claimed:", sorted(CHECKS))
    except ImportError:
        print("written (jsonschema not available for validation)")


if __name__ == "__main__":
    main()
