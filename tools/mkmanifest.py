#!/usr/bin/env python3
"""Regenerates /verif/MANIFEST.json from the table below (keeps the manifest valid at all times)."""
import json
import os
import subprocess

V = "/verif"
ALL = ["C%02d" % i for i in range(1, 21)]

CHECKS = {
    "C01": dict(
        technique="property-based testing (Hypothesis): generated systems/variables/biases; oracle = Richardson finite differences of the engine-visible energy vs applied atomic forces",
        level="exploration",
        text="Generated-input search (thousands of configurations per run over the component/option/bias tables) against a finite-difference oracle computed from the energy the engine receives; catches any force/energy inconsistency above ~1e-6..1e-3 relative in the explored class, establishes nothing outside it. Second part: metadynamics without grids, OPES and ABMD evaluated with their state frozen after a generated priming trajectory. Third part: analytic hills deposited on both sides of the boundary of a periodic variable. Differences at three step sizes (h, h/2, h/4) with the rounding noise of the energy measured per coordinate.",
        note="Trusts the engine simulator (checks/../engine/vproxy.cpp), finite differences (errors below ~1e-6 relative are invisible), generated geometries away from singular points (detected kinks are counted, not asserted).",
        design="DESIGN.md section 4 C01"),
    "C02": dict(
        technique="property-based testing (Hypothesis): independent numpy reference model of each documented formula + metamorphic relations (rigid motion, lattice translation, permutation/duplicates, quaternion sign, least-squares optimality)",
        level="exploration",
        text="Thousands of generated systems/variables per run compared with an independent implementation (Kabsch/SVD for fitted quantities) and under generated symmetry transformations; finds value errors above 1e-9 (1e-7 fitted) in the explored component/option table.",
        note="Trusts the reference model (checks/lib/refmodel.py, written from the manual) and the engine simulator; path/protein components are not in the table.",
        design="DESIGN.md section 4 C02"),
    "C04": dict(
        technique="model-based property testing (Hypothesis): Python model of the ABF estimator co-evaluated on generated value/force histories under both force-timing conventions",
        level="exploration",
        text="Generated histories (values entering/leaving the grid, system forces, a second bias - harmonic or walls - with/without subtractAppliedForce, run boundaries) against an executable model: applied force at every step and the samples/gradient arrays of the saved state; exact counts, rel 1e-10 forces.",
        note="Controlled variables (z of one atom; no Jacobian term); model written from the manual and property text; eABF/CZAR/pABF not modelled.",
        design="DESIGN.md section 4 C04"),
    "C05": dict(
        technique="model-based property testing (Hypothesis): reference model of hill deposition/tabulation compared with bias energy and forces at every step",
        level="exploration",
        text="Generated trajectories incl. excursions beyond the grid, hill schedules, well-tempered heights, grids on/off, delayed tabulation, keepHills, expandBoundaries; energy and per-variable force compared at every step (rel 1e-9; 2e-4*sum(W) outside the grid where the code truncates Gaussian tails, propagated into well-tempered heights); continuation from a state with different hill widths (every hill keeps its own).",
        note="Controlled scalar variables (1-2) with grids; a 3-vector / unit-vector variable without grids (energy, and force for the 3-vector); rebinning on restart is not in this check; hill widths >= one grid spacing.",
        design="DESIGN.md section 4 C05"),
    "C06": dict(
        technique="property-based testing (Hypothesis): closed-form potentials, schedule as a function of the step number recovered from energy+force, work/TI recomputed from the trace, cut-and-restart differential",
        level="exploration",
        text="Potentials of harmonic/walls/linear over every value type and the ABMD ratchet against the manual's closed forms; centre/force-constant schedules (continuous, staged, lambdaSchedule, decoupling, exponent) at every step; accumulated work; staged TI means; independence from run segmentation via restart at a generated step; walls on a periodic variable with the nearer wall across the boundary (energy and force); force-constant schedules on a periodic variable (work and dA/dlambda by minimum image); stepZeroData on restraints.",
        note="Schedules exercised on a controlled scalar variable; the phase of the TI equilibration window is accepted in either of the two readings the manual allows.",
        design="DESIGN.md section 4 C06"),
    "C03": dict(
        technique="differential property testing (Hypothesis): one run of N steps vs the same run cut at a generated step K, saved (text/binary/string) and restarted in a fresh module; traces compared step by step",
        level="exploration",
        text="Generated bias zoo (harmonic schedules, walls, ABF, metadynamics variants, OPES, ABMD, ALB, histogram, extended variables) on controlled variables; cut point, format and output frequencies generated; continuation trace (values, energies, forces, final state) compared at 1e-9 from the repeated first step on (evaluated once or twice, as after 'run 0'); plus purity of saving and off-schedule OPES saves.",
        note="Two listed known findings (OPES restart, metadynamics state projecting pending hills) are reported as KNOWN-FINDING; text state carries 14 digits so the comparison is at 1e-9, not bitwise.",
        design="DESIGN.md section 4 C03"),
    "C07": dict(
        technique="property-based testing (Hypothesis): inverse/linearity/Jacobian relations between the engine's atomic total forces and the reported variable total force, both timing conventions",
        level="exploration",
        text="Generated variables from the total-force-capable component table with generated system forces: reported total force equals the projection of what the engine supplied (closed forms for controlled variables, linearity and one-step lag otherwise), own bias subtracted exactly once in the late convention; histories in which walls switch on and off, every step compared; alchemical variable (alchLambda driven by an extended-Lagrangian coordinate): reported force = -dE/dlambda of the same step, lambda sent = integrated coordinate, acceleration = (bias - dE/dlambda)/mass.",
        note="Near-singular dihedrals are discarded by a stated filter; eigenvector is generated with a fitting group disjoint from the main group; the indirect force of a bias on alchFLambda is not generated; time-step factors are left to C08. A total force of exactly zero is taken by the code as 'not available' (nothing subtracted) and is skipped.",
        design="DESIGN.md section 4 C07"),
    "C08": dict(
        technique="differential property testing (Hypothesis): superposition (all objects together vs each alone) and multiple-time-step schedule model",
        level="exploration",
        text="Generated sets of variables/biases: atomic forces and energy of the joint run equal the sum of single-object runs (rel 1e-10); timeStepFactor k: forces applied k-fold at multiples of k and zero otherwise, biases updated on the coarse steps only; extended-Lagrangian variable with a time-step factor and walls that bypass the extended coordinate (impulse = factor x closed-form wall force).",
        note="Stateless biases for the sum part; the MTS part uses controlled variables.",
        design="DESIGN.md section 4 C08"),
    "C09": dict(
        technique="coverage-guided fuzzing of configuration bytes (libFuzzer, ASan+UBSan, dictionary from the sources, seeded with the repository's test inputs) with a 'module still usable' oracle; property-based testing (Hypothesis): keyword-level mutations of generated valid configurations must be rejected; metamorphic layout rewrites must give bit-identical traces",
        level="exploration",
        text="Totality by fuzzing; strictness over 9 mutation kinds (misspelling, wrong context, three brace faults, missing value, text/fused/hex number) applied to every keyword position of generated configurations; layout independence over 9 rewrite kinds (case, whitespace, blank lines, comments, trailing comments, CRLF, split/joined blocks, boolean spellings).",
        note="Mutation kinds now include truncated keywords. Strictness is checked at the positions and for the keywords the generators emit (component/group/bias tables of lib/gen.py and lib/zoo.py), not for every keyword in the manual; letter case is free for keywords only.",
        design="DESIGN.md section 4 C09"),
    "C10": dict(
        technique="structure-aware coverage-guided fuzzing (libFuzzer, ASan+UBSan) of parameter values over curated object templates with boundary values; property-based differential testing (Hypothesis) of recovery after a rejected configuration",
        level="exploration",
        text="Every keyword of 15 object templates crossed with boundary values (biases decoded first, deterministic seed corpus of long inputs so that every keyword is reached), then steps/outputs/state save; no signal, sanitizer report, hang or huge allocation, module usable afterwards. Recovery: trace of surviving objects after 1-2 rejected configurations (20 kinds) is bitwise that of a control run; object lists and atom requests unchanged; later valid configuration accepted.",
        note="Keywords not in the templates (path/protein components, volumetric maps, scripted/custom functions) are reached only by the byte-level fuzzer of C09. The log indentation level left raised by some error paths is not compared.",
        design="DESIGN.md section 4 C10"),
    "C11": dict(
        technique="fault enumeration driven by property-based generation (Hypothesis): process death at every proxy-level file operation (and, thorough, SIGKILL at every rename/openat/write/close/unlink system call via strace), crash sequences; truncation of generated states at generated/all offsets; coverage-guided fuzzing of damaged states (libFuzzer, ASan+UBSan); rapidcheck round trip of the binary stream",
        level="fault_enumeration",
        text="For each generated configuration/history every I/O point after the first completed state is a death point; after each death one of state/.old must load and equal a reference state, and the state file a multiple-walker metadynamics publishes for its peers must load whenever it exists. Truncated states: no crash, mid-block cuts of text states are errors, no half-loaded object. Damaged states: no memory error, module usable. Binary stream: every element type and length.",
        note="Three listed known findings are reported as KNOWN-FINDING (double death overwrites the backup with a partial file; binary hills list has no terminator). OPES is left out of the crash part (its state content is the subject of a C03 finding). Deaths are modelled by _exit at I/O points and by SIGKILL at syscall entry, not inside a single write() call.",
        design="DESIGN.md section 4 C11"),
    "C12": dict(
        technique="property-based testing over schedules (Hypothesis) with the harness owning the schedule: bitwise trace equality under generated work-item orders and real threads; ThreadSanitizer build for races",
        level="exploration",
        text="Generated configurations with many variables/biases/scripted functions run with no SMP, a generated serial permutation of work items and 2-8 real threads: traces bitwise equal; error items compare error bits; TSan build reports data races in Colvars frames.",
        note="Thread interleavings are sampled by the OS scheduler in mode 2 (not enumerated); TSan sees only races that the executed schedule exposes.",
        design="DESIGN.md section 4 C12"),
    "C13": dict(
        technique="stateful property testing (Hypothesis operation lists): create/delete/reconfigure sequences vs a fresh module built with the surviving objects; dependency-graph invariants (requirements, exclusions, parent/child links, reference count >= live requirements) through a guarded friend hook; ASan replay",
        level="exploration",
        text="Generated sequences of config/delete/reset/step operations via script and configuration; after every step values, energies, applied forces and atomic forces equal those of a run in which the deleted objects never existed, atom requests equal those recomputed from the live definitions, the dependency graph satisfies its invariants, and no freed memory is touched (ASan).",
        note="Objects that carry history (extended Lagrangian, history-dependent biases) are excluded from the fresh-module comparison by a taint rule, still covered by the invariants.",
        design="DESIGN.md section 4 C13"),
    "C14": dict(
        technique="stateful property testing over schedules (Hypothesis) with the harness owning the interleaving: 2-4 walker processes driven through pipes; model of 'every sample/hill exactly once'; fault injection (peer death, restart at an exchange boundary, peer hills file cut at a generated byte)",
        level="exploration",
        text="Shared ABF over a socket star: final samples/gradient/local arrays of every walker against the union model (counts exact, means 1e-10), peer death leaves survivors' data intact and is reported as an error. Multiple-walker metadynamics through files: per-site hill multiplicities decoded from each walker's bias at every probe, bounded below by what peers had published and above by what they deposited; own state holds own hills only. Shared eABF (replica_share_CZAR): the z-histogram gathered by replica 0 = union of the walkers' local z-histograms (each = its own samples once), gathered z-gradient = their sample-weighted mean, with all or some walkers restarted between runs.",
        note="Two listed known findings (ABF sample of the exchange step lost over a restart; metadynamics state-rewrite lag) are reported as KNOWN-FINDING and the case continues with the weaker bound. Errors raised while a peer's file is incomplete are tolerated (the property only forbids corruption). OPES multiple walkers are not generated.",
        design="DESIGN.md section 4 C14"),
    "C20": dict(
        technique="coverage-guided fuzzing (libFuzzer, ASan+UBSan) of script command sequences with the 'result xor error' and 'module still usable' oracles inside the target; property-based testing (Hypothesis) of query/trace agreement and of script-vs-engine action equivalence",
        level="exploration",
        text="Command sequences over the registered command table with malformed arguments interleaved with steps; every query type compared with the engine-side trace of the same step at the printed precision, atomic forces = sum of script forces x script gradients; cv config/configfile/load/loadfromstring/save/addforce (scalar and 3-vector variables)/bias state commands compared with the engine or configuration path (bitwise where the arithmetic is the same); 'cv reset' + same configuration + load equals a fresh module.",
        note="Energies are printed with 6 significant digits by the interface; agreement is checked at that precision (stated assumption).",
        design="DESIGN.md section 4 C20"),
    "C15": dict(
        technique="property-based testing: Hypothesis bin model for histogram binning; rapidcheck round-trips of grid files (multicolumn, restart text/binary, raw)",
        level="exploration",
        text="Values exactly on edges, inside, just outside and far outside; periodic and custom grids, run boundaries; counts per bin exact. Grid objects of generated shape written and re-read in 4 formats: same shape and data. Thermodynamic-integration sample grids of a restraint (.ti.count/.ti.force) against the (value, system force) pairs under both force-timing conventions.",
        note="gatherVectorColvars cannot be configured in this code base (vector variables are rejected by the grid feature), so it is not generated.",
        design="DESIGN.md section 4 C15"),
    "C16": dict(
        technique="property-based testing: rapidcheck on the integrator's API (own divergence/Laplacian model, exactness on conservative fields, convergence); Hypothesis metamorphic test through the ABF bias (surface kept up to date sample by sample = surface of a fresh instance reading the final data)",
        level="exploration",
        text="Generated 1-3 D gradient grids (periodic/non-periodic, with unsampled bins): integrate_potential output satisfies the discrete Poisson equation to the solver tolerance, reproduces analytic potentials of conservative fields up to a constant, 1D equals cumulative sum. 2-D/3-D ABF runs with generated sample arrival orders, minSamples/fullSamples: the .pmf written by the run equals the .pmf of an instance that reads the written gradients and counts (1e-6).",
        note="Solver tolerance is the code's own (1e-6 default); weighted variants compared through the residual they define.",
        design="DESIGN.md section 4 C16", engine="rapidcheck targets (rc/)"),
    "C17": dict(
        technique="model-based property testing (Hypothesis): independent reference integrator for the extended-Lagrangian degree of freedom driven by a recorded Gaussian tape",
        level="exploration",
        text="Generated masses/force constants/friction/temperatures/time steps/timeStepFactor, walls and biases on the extended coordinate, run boundaries and restarts: position, velocity, spring force on atoms and energy at every step equal the reference (rel 1e-9), each step predicted from the code's own previous state (one-step-ahead, so that stiff dynamics do not amplify rounding); timeStepFactor 1-3 on the variable.",
        note="The random numbers are a tape owned by the harness; the statistical quality of the thermostat is not decided.",
        design="DESIGN.md section 4 C17"),
    "C19": dict(
        technique="property-based testing (Hypothesis): trajectory, running-average and correlation-function files parsed and recomputed from the step trace",
        level="exploration",
        text="Generated output frequencies, run boundaries with repeated steps, objects added mid-run, variables computed every 2nd/3rd step, every output flag: one line per eligible step, no duplicates, labels match columns, numbers equal the trace at 14 digits; running average/ACF (scalar and 3-vector, coordinate and coordinate_p2) equal a Python recomputation.",
        note="Running average of periodic variables is not compared near the seam (not defined by the property).",
        design="DESIGN.md section 4 C19"),
    "C18": dict(
        technique="property-based testing (rapidcheck, direct API): metric axioms, tangent-space finite differences, closed-form minimum image, wrap interval",
        level="exploration",
        text="Millions of generated value pairs per run for every value type and for periodic variables built through the configuration path (component period and scripted period with wrapAround); asserts the stated metric/gradient/wrap/interpolation laws.",
        note="Gradients compared away from the cut locus; distinct_nontrivial counts generated real-valued pairs (practically all distinct).",
        design="DESIGN.md section 4 C18", engine="rapidcheck targets (rc/)"),
}

PENDING_REASON = "check under construction in this session; not claimed until it runs green on the unchanged tree"


def main():
    hooks_commits = ["bd185528"]
    m = {
        "version": 1,
        "setup_cmd": "make -s -j16 -C /verif everything",
        "hooks": {
            "guard": "COLVARS_VERIF",
            "sub_guards": "VERIF_DEPS_HOOK (friend declaration in src/colvardeps.h)",
            "enable": "make -C /verif compiles /repo/src/*.cpp with -DCOLVARS_VERIF into /verif/build/<variant>/",
            "baseline_off_cmd": "cmake --build /repo/_build -j16 && ctest --test-dir /repo/_build -j8 --timeout 900",
            "source_commits": hooks_commits,
            "add_only": True,
        },
        "engines": [
            {"name": "vproxy+cvdrive", "path": "engine/", "serves_properties": sorted(CHECKS),
             "kind_free_text": "engine simulator (colvarproxy subclass) + case-file interpreter; one process per case"},
        ],
        "checks": [],
        "not_applicable": [],
        "notes": "All checks: python3-vt checks/run.py <ID> --tier quick|thorough; they rebuild /repo/src from the working tree first. Known findings: known_findings.json.",
    }
    for pid in ALL:
        if pid in CHECKS:
            c = CHECKS[pid]
            m["checks"].append({
                "property_id": pid,
                "quick_cmd": "python3-vt checks/run.py %s --tier quick" % pid,
                "thorough_cmd": "python3-vt checks/run.py %s --tier thorough" % pid,
                "evidence_file": "/verif/evidence/%s.json" % pid,
                "replay_cmd_template": "python3-vt checks/run.py %s --replay {path}" % pid,
                "engine": c.get("engine", "vproxy+cvdrive"),
                "level_claimed": {"category": c["level"], "text": c["text"], "design_ref": c["design"]},
                "level_note": c["note"],
                "technique": c["technique"],
            })
        else:
            m["not_applicable"].append({"property_id": pid, "reason": PENDING_REASON})
    json.dump(m, open(os.path.join(V, "MANIFEST.json"), "w"), indent=1)
    try:
        import jsonschema
        jsonschema.validate(m, json.load(open("/root/.vp/MANIFEST.schema.json")))
        print("MANIFEST.json valid; claimed:", sorted(CHECKS))
    except ImportError:
        print("written (jsonschema not available for validation)")


if __name__ == "__main__":
    main()
