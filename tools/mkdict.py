#!/usr/bin/env python3
"""Extract configuration keywords from /repo/src (literals passed to get_keyval*/key_lookup/add_component_type/
add_bias_type...) into a libFuzzer dictionary, and collect the seed corpus from tests/input_files."""
import glob
import os
import re
import shutil
import sys

out = sys.argv[1] if len(sys.argv) > 1 else "/verif/build/fuzz"
os.makedirs(out, exist_ok=True)
kw = set()
for f in glob.glob("/repo/src/*.cpp") + glob.glob("/repo/src/*.h"):
    s = open(f, errors="replace").read()
    for m in re.finditer(r'(?:get_keyval\w*|key_lookup|get_key_string_value|get_key_string_multi_value|parse_group)\s*\([^;]*?"([A-Za-z][A-Za-z0-9_]*)"', s, re.S):
        kw.add(m.group(1))
    for m in re.finditer(r'add_component_type<\w+>\s*\("[^"]*",\s*"(\w+)"\)', s):
        kw.add(m.group(1))
    for m in re.finditer(r'parse_biases_type<\w+>\s*\([^,]*,\s*"(\w+)"', s):
        kw.add(m.group(1))
kw |= {"colvar", "on", "off", "yes", "no", "true", "false", "{", "}", "(", ")", ",", "#", "\\n", "atomNumbers",
       "atomNumbersRange", "indexGroup", "dummyAtom", "name", "colvars", "centers", "1 2 3", "0", "-1", "1e300", "nan", "inf"}
with open(os.path.join(out, "config.dict"), "w") as f:
    for k in sorted(kw):
        if k == "\\n":
            f.write('"\\x0a"\n')
        else:
            f.write('"%s"\n' % k.replace("\\", "\\\\").replace('"', '\\"'))
seed = os.path.join(out, "seed_config")
shutil.rmtree(seed, ignore_errors=True)
os.makedirs(seed)
for i, f in enumerate(sorted(glob.glob("/repo/tests/input_files/*/test.in"))):
    shutil.copy(f, os.path.join(seed, "t%03d.in" % i))
print("keywords:", len(kw), "seeds:", len(os.listdir(seed)))
