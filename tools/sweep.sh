#!/bin/sh
# Development tool: runs every check of one tier for the given VERIF_SEED values on the current tree and prints one line per run.
# usage: tools/sweep.sh <tier> <seed> [<seed> ...]     (logs: $SWEEP_LOG_DIR, default /tmp/vf_sweep)
tier=$1; shift
out=${SWEEP_LOG_DIR:-/tmp/vf_sweep}
mkdir -p "$out"
cd /verif || exit 2
for seed in "$@"; do
  for n in 01 02 03 04 05 06 07 08 09 10 11 12 13 14 15 16 17 18 19 20; do
    log="$out/C${n}_${tier}_s${seed}.log"
    t0=$(date +%s)
    VERIF_SEED=$seed python3-vt checks/run.py C$n --tier "$tier" > "$log" 2>&1
    rc=$?
    echo "C$n $tier seed=$seed rc=$rc wall=$(( $(date +%s) - t0 ))s $(grep -c '^KNOWN-FINDING' "$log") known $(grep '^VIOLATION' "$log" | head -1)"
  done
done
