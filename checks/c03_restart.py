"""C03: a run resumed from a saved state is indistinguishable from an uninterrupted run."""
import math
import os
import re
from hypothesis import strategies as st
from lib import cvz, zoo
from lib.gen import fl, rnd, fmt
from lib.core import Outcome, run_case, fnum, pct

ID = "C03"
LEVEL = "exploration"
RULE = ("Hypothesis generates 1-2 controlled variables (scalar, periodic, extended-Lagrangian with a generated Gaussian tape) and "
        "1-2 biases from the zoo (harmonic fixed/moving centres/moving k/staged, walls, linear, ABF under both force-timing "
        "conventions, metadynamics grids on/off/keepHills/well-tempered/delayed tabulation, OPES, ABMD, ALB, histogram), a "
        "trajectory with excursions outside the grids, a stop step K (first, last, on and off each bias's schedule), state "
        "format (text/binary) and channel (file, string, memory buffer). Oracle: differential - run A uninterrupted; run B = "
        "segment 1, save, fresh process, load, segment 2 (step K repeated as step 0); per-step values, bias energies, engine "
        "energy and atomic forces for K+1..T and the final states (token-wise, numeric tolerance 1e-9 text / 1e-12 binary) must "
        "agree; loading then immediately saving reproduces the loaded state. Non-trivial: 0<K<T and >=1 bias with history.")
ASSUMPTIONS = ["the resumed run repeats step K as its step 0 with the positions of step K, as engines do"]

NUM = re.compile(r"^[-+]?(?:\d+\.?\d*|\.\d+)(?:[eE][-+]?\d+)?$|^[-+]?(?:nan|inf)$", re.I)


def compare_states(a, b, tol):
    """token-wise comparison; returns None or a description of the first difference"""
    ta, tb = a.split(), b.split()
    if len(ta) != len(tb):
        # locate first structural difference
        for i, (x, y) in enumerate(zip(ta, tb)):
            if x != y and not (NUM.match(x) and NUM.match(y)):
                return "token %d: %r vs %r (lengths %d vs %d)" % (i, x, y, len(ta), len(tb))
        return "different number of tokens: %d vs %d" % (len(ta), len(tb))
    ctx = ""
    for i, (x, y) in enumerate(zip(ta, tb)):
        if x == y:
            if not NUM.match(x):
                ctx = x
            continue
        if NUM.match(x) and NUM.match(y):
            fx, fy = float(x), float(y)
            if math.isnan(fx) and math.isnan(fy):
                continue
            if abs(fx - fy) <= tol * max(1.0, abs(fx), abs(fy)):
                continue
            return "after %r (token %d): %s vs %s" % (ctx, i, x, y)
        return "token %d after %r: %r vs %r" % (i, ctx, x, y)
    return None


@st.composite
def spec_restart(draw, tier):
    vs = draw(zoo.variables(2))
    tf = draw(st.sampled_from([0, 1, 2]))
    nb = draw(st.sampled_from([1, 1, 2]))
    bs = [draw(zoo.bias(vs, i, total_forces=(tf != 0))) for i in range(nb)]
    if any(v["ext"] for v in vs):
        # eABF-like combinations are fine; ALB on an extended variable is not supported by the generator
        bs = [b for b in bs if b["kind"] != "alb"] or [draw(zoo.bias(vs, 0, kinds=["harmonic", "meta", "abf" if tf else "harmonic"]))]
    T = draw(st.integers(4, 40))
    traj = draw(zoo.trajectory(vs, T + 1))
    k_kind = draw(st.integers(0, 9))
    K = 0 if k_kind == 0 else (T if k_kind == 1 else draw(st.integers(1, T - 1)))
    n = len(vs)
    return {"z": {"vars": vs, "biases": bs}, "tf": tf, "T": T, "K": K, "traj": traj,
            "fsys": [[rnd(draw(fl(-4, 4)), 2) for _ in range(n)] for _ in range(T + 1)],
            "binary": draw(st.booleans()), "channel": draw(st.sampled_from(["file", "file", "string", "buffer"])),
            "gauss": [rnd(draw(fl(-2, 2)), 3) for _ in range(8)], "first": draw(st.sampled_from([0, 0, 0, 7])),
            "rep0": draw(st.integers(0, 3)) == 0}


def has_kind(z, kind):
    return any(b["kind"] == kind for b in z["biases"])


def segment(spec, t0, t1, pre=(), post=(), save_after=None, rfreq=None, repeat_first=False):
    z = spec["z"]
    nat = len(z["vars"]) + 1
    L = cvz.header(nat, spec["tf"], temperature=300.0)
    if spec["binary"]:
        L.append("binary 1")
    L.append("timestep 0x1p+0")
    g = spec["gauss"]
    L.append("gauss " + " ".join(fnum(x) for x in g))
    L.append("setstep %d" % spec["first"])
    glob = ""
    if rfreq is None and has_kind(z, "opes"):
        # OPES writes the snapshot taken at the last multiple of colvarsRestartFrequency: keep the stop step on that schedule
        rfreq = spec["K"] + spec["first"] if (spec["K"] + spec["first"]) > 0 else 1
    if rfreq is not None:
        glob = "colvarsRestartFrequency %d\n" % rfreq
    L.append("config <<END\n%s%s\nEND" % (glob, zoo.render(z)))
    L.extend(pre)
    wig = has_kind(z, "alb")
    for t in range(t0, t1 + 1):
        xs = [x + (0.013 * ((t * 7 + i) % 5) if wig else 0.0) for i, x in enumerate(spec["traj"][t])]
        L.append(cvz.pos_line_z(xs, nat))
        L.append(cvz.fsys_line_z(spec["fsys"][t], nat))
        L.append("step")
        if repeat_first and t == t0:
            # the engine evaluates the first step of the new run twice ("run 0" followed by "run N")
            L += ["newrun", cvz.pos_line_z(xs, nat), cvz.fsys_line_z(spec["fsys"][t], nat), "step"]
        if save_after is not None and t == save_after:
            L.append("savestr")
    L.extend(post)
    return "\n".join(L) + "\n"


def check_restart(spec, ctx):
    out = _check_restart(spec, ctx)
    if not out.ok and out.sig not in ("crash", "gen_invalid"):
        z = spec["z"]
        # failures whose cause is one of the recorded findings carry that finding's signature (see known_findings.json);
        # they are identified by the configuration class that triggers them, everything else keeps its own signature
        # The uninterrupted run of this part also writes a state at step K, so that the recorded finding about saving projecting the
        # pending hills of a metadynamics bias affects both runs alike after K; it shows only in the repeated step K itself (not
        # compared for those configurations, see below) and, through that step's force, in the later motion of an extended variable
        if any(b["kind"] == "meta" and b.get("gf", 1) != 1 for b in z["biases"]) and any(v["ext"] for v in z["vars"]):
            out.sig = "meta_save_projects_hills"
        elif has_kind(z, "opes"):
            out.sig = "opes_restart"
    return out


def _check_restart(spec, ctx):
    T, K = spec["T"], spec["K"]
    z = spec["z"]
    uses_gauss = any(v.get("ext") and v.get("ext_damp", 0) > 0 for v in z["vars"])
    if uses_gauss:
        # the random stream of an engine is not part of the Colvars state: make the tape constant so that both runs see the same numbers
        spec = dict(spec)
        spec["gauss"] = [spec["gauss"][0]]
    # the uninterrupted run also writes (and discards) a state at step K, like an engine writing periodic restarts
    caseA = segment(spec, 0, T, post=["savestr"], save_after=K)
    rA = run_case(caseA)
    if rA.crashed:
        return Outcome(False, msg="crash in the uninterrupted run: %s" % rA.stderr[-500:], sig="crash", case_text=caseA)
    if rA.of("config")[0]["rc"] != 0:
        return Outcome(False, msg="generated configuration rejected: %s" % rA.of("config")[0]["errs"], sig="gen_invalid", case_text=caseA)
    stepsA = rA.of("step")
    if any(s["errbits"] for s in stepsA):
        return Outcome(False, msg="error in the uninterrupted run: %s" % [s["errs"] for s in stepsA if s["errbits"]][:1], sig="step_error",
                       case_text=caseA)
    # segment 1
    path = os.path.join(ctx["workdir"], "st_%d" % os.getpid())
    ch = spec["channel"]
    if ch == "file":
        post1 = ["save %s" % pct(path + ".colvars.state")]
    elif ch == "string":
        post1 = ["savestr"]
    else:
        post1 = ["savebuf"]
    case1 = segment(spec, 0, K, post=post1)
    r1 = run_case(case1)
    if r1.crashed:
        return Outcome(False, msg="crash in segment 1: %s" % r1.stderr[-500:], sig="crash", case_text=case1)
    if ch == "file":
        load = "load %s" % pct(path)
        if spec["binary"]:
            saved_text = None
        else:
            saved_text = open(path + ".colvars.state").read()
    elif ch == "string":
        saved_text = r1.of("savestr")[0]["state"]
        load = "loadstr %s" % pct(saved_text)
    else:
        load = "loadbuf %s" % r1.of("savebuf")[0]["hex"]
        saved_text = None
    # segment 2: fresh process, load, immediately save (round trip), continue
    case2 = segment(spec, K, T, pre=[load, "savestr"], post=["savestr"], repeat_first=bool(spec.get("rep0")))
    r2 = run_case(case2)
    full_case = caseA + "\n# ---- segment 1 ----\n" + case1 + "\n# ---- segment 2 (fresh process) ----\n" + case2
    if r2.crashed:
        return Outcome(False, msg="crash in segment 2: %s" % r2.stderr[-500:], sig="crash", case_text=full_case)
    ld = r2.of("load")[0]
    kinds = ",".join(sorted(b["kind"] for b in z["biases"]))
    vkinds = ",".join(("ext" if v["ext"] else "") + ("per" if v["periodic"] else "") or "plain" for v in z["vars"])
    fmt_ = ("binary" if spec["binary"] or ch == "buffer" else "text") + "/" + ch
    tag = "[%s | %s | tf=%d | K=%d T=%d | %s]" % (kinds, vkinds, spec["tf"], K, T, fmt_)
    if ld["rc"] != 0 or ld["errbits"]:
        return Outcome(False, msg="the state written by segment 1 is rejected on loading: %s %s" % (ld["errs"], tag), sig="load_error",
                       case_text=full_case)
    # also the binary format carries the per-object parameters as formatted text (14 digits)
    tol = 1e-9
    saves2 = r2.of("savestr")
    # round trip: load -> save reproduces what was loaded
    if saved_text is not None:
        d = compare_states(saved_text, saves2[0]["state"], 1e-13)
        if d:
            return Outcome(False, msg="saving immediately after loading does not reproduce the loaded state: %s %s" % (d, tag),
                           sig="roundtrip", case_text=full_case)
    steps2 = r2.of("step")
    if any(s["errbits"] for s in steps2):
        return Outcome(False, msg="error in the resumed run: %s %s" % ([s["errs"] for s in steps2 if s["errbits"]][:1], tag), sig="step_error",
                       case_text=full_case)
    byA = {s["it"]: s for s in stepsA}
    first = spec["first"]
    delayed_meta = any(b["kind"] == "meta" and b.get("gf", 1) != 1 for b in z["biases"])
    for s in steps2:
        t = s["it"]
        if t < first + K:
            continue
        if t == first + K and delayed_meta:
            continue        # recorded finding (meta_save_projects_hills): the state holds the pending hills already tabulated
        a = byA[t]
        for i, (ca, cb) in enumerate(zip(a["cv"], s["cv"])):
            for key in ("x", "f"):
                for u, v in zip(ca[key], cb[key]):
                    if abs(u - v) > tol * max(1.0, abs(u)):
                        return Outcome(False, msg="step %d variable %s %s: %r uninterrupted, %r resumed %s" %
                                       (t, ca["name"], {"x": "value", "f": "applied force"}[key], u, v, tag), sig="resume_" + key,
                                       case_text=full_case)
        for ba, bb in zip(a["bias"], s["bias"]):
            if abs(ba["E"] - bb["E"]) > tol * max(1.0, abs(ba["E"])):
                return Outcome(False, msg="step %d bias %s energy: %r uninterrupted, %r resumed %s" % (t, ba["name"], ba["E"], bb["E"], tag),
                               sig="resume_energy", case_text=full_case)
        if abs(a["E"] - s["E"]) > tol * max(1.0, abs(a["E"])):
            return Outcome(False, msg="step %d engine energy: %r uninterrupted, %r resumed %s" % (t, a["E"], s["E"], tag), sig="resume_E",
                           case_text=full_case)
        for fa, fb in zip(a["F"], s["F"]):
            for u, v in zip(fa, fb):
                if abs(u - v) > tol * max(1.0, abs(u)):
                    return Outcome(False, msg="step %d atomic force: %r uninterrupted, %r resumed %s" % (t, u, v, tag), sig="resume_F",
                                   case_text=full_case)
    d = compare_states(rA.of("savestr")[-1]["state"], saves2[-1]["state"], max(tol, 1e-9))
    if d:
        return Outcome(False, msg="final states differ: %s %s" % (d, tag), sig="final_state", case_text=full_case)
    history = any(b["kind"] not in ("harmonic", "walls", "linear") for b in z["biases"]) or any(v["ext"] for v in z["vars"])
    nontrivial = 0 < K < T and history
    cls = (kinds, vkinds, "tf%d" % spec["tf"], fmt_)
    strata = ["bias:" + b["kind"] for b in z["biases"]] + ["fmt:" + fmt_, "tf%d" % spec["tf"]] + \
        (["K0"] if K == 0 else []) + (["KT"] if K == T else []) + (["ext"] if any(v["ext"] for v in z["vars"]) else []) + \
        (["periodic"] if any(v["periodic"] for v in z["vars"]) else []) + (["first_step_twice"] if spec.get("rep0") else [])
    return Outcome(True, nontrivial=nontrivial, cls=cls, strata=strata, case_text=full_case)


# --------------------------------------------------------------------------------------------
# writing a state is an observation: it must not change the run

def check_save_pure(spec, ctx):
    T, K = spec["T"], spec["K"]
    z = spec["z"]
    c0 = segment(spec, 0, T, post=["savestr"])
    c1 = segment(spec, 0, T, post=["savestr"], save_after=K)
    r0, r1 = run_case(c0), run_case(c1)
    if r0.crashed or r1.crashed:
        return Outcome(False, msg="crash %s %s" % (r0.stderr[-300:], r1.stderr[-300:]), sig="crash", case_text=c1)
    if r0.of("config")[0]["rc"] != 0:
        return Outcome(False, msg="generated configuration rejected: %s" % r0.of("config")[0]["errs"], sig="gen_invalid", case_text=c1)
    kinds = ",".join(sorted(b["kind"] for b in z["biases"]))
    delayed = any(b["kind"] == "meta" and b.get("gf", 1) != 1 for b in z["biases"])
    for a, b in zip(r0.of("step"), r1.of("step")):
        if a["it"] <= K + spec["first"]:
            continue
        same = abs(a["E"] - b["E"]) <= 1e-12 * max(1.0, abs(a["E"])) and all(
            abs(u - v) <= 1e-12 * max(1.0, abs(u)) for fa, fb in zip(a["F"], b["F"]) for u, v in zip(fa, fb))
        if not same:
            return Outcome(False, msg="step %d: energy/forces differ between a run that wrote a state at step %d and one that did not "
                           "(%r vs %r) [%s]" % (a["it"], K, a["E"], b["E"], kinds),
                           sig="meta_save_projects_hills" if delayed else "save_alters_run", case_text=c1)
    d = compare_states(r0.of("savestr")[-1]["state"], r1.of("savestr")[-1]["state"], 1e-12)
    if d:
        return Outcome(False, msg="final states differ between a run that wrote a state at step %d and one that did not: %s [%s]" % (K, d, kinds),
                       sig="meta_save_projects_hills" if delayed else "save_alters_state", case_text=c1)
    return Outcome(True, nontrivial=0 < K < T, cls=(kinds,), strata=["bias:" + b["kind"] for b in z["biases"]], case_text=c1)


# --------------------------------------------------------------------------------------------
# OPES: state written at a step that is not on the colvarsRestartFrequency schedule

@st.composite
def spec_opes_off(draw, tier):
    vs = draw(zoo.variables(1, allow_ext=False, allow_periodic=False))
    b = draw(zoo.bias(vs, 0, kinds=["opes"], total_forces=False))
    T = draw(st.integers(6, 20))
    K = draw(st.integers(1, T - 1))
    rf = draw(st.sampled_from([0, K + 1, 2 * K + 1]))
    return {"z": {"vars": vs, "biases": [b]}, "tf": 0, "T": T, "K": K, "traj": draw(zoo.trajectory(vs, T + 1)),
            "fsys": [[0.0] for _ in range(T + 1)], "binary": False, "channel": "string", "gauss": [0.0], "first": 0, "rfreq": rf}


def check_opes_off(spec, ctx):
    T, K = spec["T"], spec["K"]
    cA = segment(spec, 0, T, post=["savestr"], rfreq=spec["rfreq"])
    rA = run_case(cA)
    c1 = segment(spec, 0, K, post=["savestr"], rfreq=spec["rfreq"])
    r1 = run_case(c1)
    if rA.crashed or r1.crashed or rA.of("config")[0]["rc"] != 0:
        return Outcome(False, msg="crash/rejected: %s" % rA.of("config")[:1], sig="gen_invalid", case_text=cA)
    st1 = r1.of("savestr")[0]["state"]
    c2 = segment(spec, K, T, pre=["loadstr %s" % pct(st1)], post=["savestr"], rfreq=spec["rfreq"])
    r2 = run_case(c2)
    full = cA + "\n# ---- segment 1 ----\n" + c1 + "\n# ---- segment 2 ----\n" + c2
    if r2.crashed:
        return Outcome(False, msg="crash in the resumed run %s" % r2.stderr[-300:], sig="crash", case_text=full)
    byA = {s["it"]: s for s in rA.of("step")}
    for s in r2.of("step"):
        if s["it"] <= K:
            continue
        a = byA[s["it"]]
        ea, eb = a["bias"][0]["E"], s["bias"][0]["E"]
        if not (abs(ea - eb) <= 1e-9 * max(1.0, abs(ea))):
            return Outcome(False, msg="OPES, colvarsRestartFrequency %d, state written at step %d: energy at step %d is %r uninterrupted, %r resumed" %
                           (spec["rfreq"], K, s["it"], ea, eb), sig="opes_restart", case_text=full)
    return Outcome(True, nontrivial=True, cls=("rf%d" % spec["rfreq"],), strata=["rf%d" % (0 if spec["rfreq"] == 0 else 1)], case_text=full)


def view(spec):
    return {"config": zoo.render(spec["z"]), "tf": spec["tf"], "T": spec["T"], "K": spec["K"], "binary": spec["binary"], "channel": spec["channel"],
            "traj_head": spec["traj"][:4]}


PARTS = {
    "restart": {"strategy": spec_restart, "check": check_restart, "examples": {"quick": 8000, "thorough": 30000}, "sample": view},
    "save_pure": {"strategy": spec_restart, "check": check_save_pure, "examples": {"quick": 2500, "thorough": 8000}, "sample": view},
    "opes_offschedule": {"strategy": spec_opes_off, "check": check_opes_off, "examples": {"quick": 128, "thorough": 800}, "sample": view},
}
