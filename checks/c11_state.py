"""C11: crash-consistent state files; damaged state never crashes the host; binary stream round trip."""
from lib import rcrun

ID = "C11"
LEVEL = "exploration"
RULE = ("(stream) rapidcheck: sequences of 1-12 values of every type cvm::memory_stream accepts (bool, char, int, long long, "
        "size_t, float, double, string incl. empty/NUL bytes, vector<int|double|float|char|size_t|long long> incl. empty and "
        ">100 elements, vector1d, colvarvalue of every type) written, read back (identical bits, stream good, fully "
        "consumed) and read from a copy truncated at a generated offset (the read crossing the cut must fail). "
        "Non-trivial: sequence contains a vector whose element size is not 8 bytes.")
ASSUMPTIONS = ["unit vectors / quaternions are re-normalised on reading: compared within 4e-16, everything else bitwise"]
N = {"quick": 200000, "thorough": 3000000}


def runner_stream(tier, seed):
    return rcrun.run_rc(ID, "stream", "rc_c11", tier, seed, N[tier], ["stream.nontrivial_small_elements"])


PARTS = {"stream": {"runner": runner_stream, "replay": rcrun.replay_rc}}
