"""C11: crash-consistent state files; damaged state never crashes the host; binary stream round trip."""
import glob
import os
import re
import shutil
import subprocess
import tempfile
from hypothesis import strategies as st
from lib import rcrun, fuzzrun, cvz, zoo
from lib.gen import fl, rnd
from lib.core import Outcome, run_case, fnum, pct, BUILD, ENV_BASE
from c03_restart import compare_states

ID = "C11"
LEVEL = "fault_enumeration"
RULE = ("(crash) Hypothesis generates a bias zoo configuration, colvarsRestartFrequency, 2-4 state writes (periodic, end of run) in text "
        "or binary form and, optionally, a second run resumed from whatever survived; a reference run records the state after each "
        "write and the list of file operations (backup/rename/open/flush/close); the run is then repeated with the process killed "
        "(_exit, buffers not flushed) before and after EVERY file operation of every write (thorough: additionally SIGKILL injected by "
        "strace at every rename/openat/write/close/unlink system call).  Oracle: from the completion of the first write on, "
        "<prefix>.colvars.state or <prefix>.colvars.state.old loads without error in a fresh process and the loaded state equals one of "
        "the reference states; nothing that loads is a mixture.  (truncate) every state of the zoo cut at generated offsets (quick: ~60 "
        "per state incl. every block boundary +-1; thorough: every offset), text and binary: no crash; a cut strictly inside a "
        "colvar/bias block of a text state must be reported as an error; an accepted cut state, saved again, must consist of objects "
        "that each equal either the fully loaded or the never-loaded object (no half-loaded object).  (damaged) libFuzzer (ASan+UBSan) "
        "mutates valid text and binary states of 8 embedded configurations; oracle inside the target: no memory error, module usable "
        "afterwards.  (stream) rapidcheck round trip of every element type and length through cvm::memory_stream, and reads from "
        "truncated buffers.  Non-trivial: death inside the second or later write (crash); cut inside a block (truncate).")
ASSUMPTIONS = ["process death is modelled by _exit at proxy-level I/O points (unflushed stream buffers are lost, as with SIGKILL) and, on the "
               "thorough tier, by SIGKILL at system-call entry", "unit vectors / quaternions are re-normalised on reading: compared within 4e-16"]
BUILD_TARGETS = ["rel", "asan"]
N = {"quick": 200000, "thorough": 3000000}
SECONDS = {"quick": 40, "thorough": 900}


def runner_stream(tier, seed):
    return rcrun.run_rc(ID, "stream", "rc_c11", tier, seed, N[tier], ["stream.nontrivial_small_elements"])


def runner_damaged(tier, seed):
    exe = fuzzrun.build("fuzz_state")
    seeds = os.path.join(BUILD, "fuzz", "seed_state")
    if not os.path.isdir(seeds) or not os.listdir(seeds):
        os.makedirs(seeds, exist_ok=True)
        env = fuzzrun.fenv()
        env["VF_DUMP_SEEDS"] = seeds
        subprocess.run([exe], env=env, stdout=subprocess.DEVNULL, stderr=subprocess.DEVNULL, timeout=300)
    return fuzzrun.campaign(ID, "damaged", "fuzz_state", tier, seed, SECONDS[tier], corpus_dirs=[seeds], max_len=20000)


# ------------------------------------------------------------------------------------------------------------
# common

KINDS = ["harmonic", "harmonic_moving", "abf", "meta", "meta_nogrid", "meta_wt", "opes", "abmd", "alb", "histogram", "walls"]


@st.composite
def zoo_case(draw, tmin=4, tmax=14, kinds=None):
    vs = draw(zoo.variables(2))
    nb = draw(st.sampled_from([1, 2, 2]))
    bs = [draw(zoo.bias(vs, i, kinds=kinds or KINDS)) for i in range(nb)]
    if any(v["ext"] for v in vs):
        bs = [b for b in bs if b["kind"] != "alb"] or [draw(zoo.bias(vs, 0, kinds=["harmonic", "meta", "abf"]))]
    for b in bs:
        if b["kind"] == "meta":
            b["keep"] = draw(st.booleans())
    T = draw(st.integers(tmin, tmax))
    traj = draw(zoo.trajectory(vs, T + 1))
    return {"z": {"vars": vs, "biases": bs}, "T": T, "traj": traj,
            "fsys": [[rnd(draw(fl(-4, 4)), 2) for _ in range(len(vs))] for _ in range(T + 1)]}


def head_lines(sp, binary=False):
    nat = len(sp["z"]["vars"]) + 1
    L = cvz.header(nat, 1, temperature=300.0)
    if binary:
        L.append("binary 1")
    L.append("timestep 0x1p+0")
    L.append("gauss 0.3")
    return L, nat


def traj_lines(sp, t0, t1, nat):
    L = []
    wig = any(b["kind"] == "alb" for b in sp["z"]["biases"])
    for t in range(t0, t1 + 1):
        xs = [x + (0.013 * ((t * 7 + i) % 5) if wig else 0.0) for i, x in enumerate(sp["traj"][t])]
        L += [cvz.pos_line_z(xs, nat), cvz.fsys_line_z(sp["fsys"][t], nat), "step"]
    return L


# ------------------------------------------------------------------------------------------------------------
# truncation

@st.composite
def spec_trunc(draw, tier):
    sp = draw(zoo_case())
    sp["binary"] = draw(st.booleans())
    sp["fracs"] = [draw(st.floats(0.0, 1.0)) for _ in range(40)]
    return sp


def block_spans(text):
    """(keyword, index of '{', index of the matching '}') of the top-level blocks"""
    out = []
    i, n = 0, len(text)
    rx = re.compile(r"\s*([A-Za-z_][\w]*)\s*\{")
    while i < n:
        m = rx.match(text, i)
        if not m:
            break
        depth, j = 1, m.end()
        while j < n and depth:
            if text[j] == "{":
                depth += 1
            elif text[j] == "}":
                depth -= 1
            j += 1
        out.append((m.group(1), m.end() - 1, j - 1))
        i = j
    return out


def check_trunc(sp, ctx):
    tier = ctx["tier"]
    L, nat = head_lines(sp)
    cfg = "config <<END\n%s\nEND" % zoo.render(sp["z"])
    caseA = "\n".join(L + [cfg] + traj_lines(sp, 0, sp["T"], nat) + ["savestr", "savebuf"]) + "\n"
    rA = run_case(caseA)
    if rA.crashed or rA.of("config")[0]["rc"] != 0 or any(s["errbits"] for s in rA.of("step")):
        return Outcome(False, msg="reference run failed: %s" % rA.stderr[-300:], sig="gen_invalid", case_text=caseA)
    text = rA.of("savestr")[0]["state"]
    hexb = rA.of("savebuf")[0]["hex"]
    binary = sp["binary"]
    size = len(hexb) // 2 if binary else len(text)
    spans = block_spans(text)
    if tier == "thorough" and size <= 6000:
        cuts = list(range(0, size))
    else:
        cuts = set(int(f * size) for f in sp["fracs"])
        if not binary:
            for _, o, c in spans:
                cuts.update([o, o + 1, c - 1, c, c + 1, (o + c) // 2])
        cuts.update([0, 1, size - 1, size - 2, 4, 8])
        cuts = sorted(c for c in cuts if 0 <= c < size)
    B = L + []
    plan = []
    for c in [None, size] + cuts:
        B += ["reset", "clear_error", "setstep 0", cfg, cvz.pos_line_z(sp["traj"][0], nat), cvz.fsys_line_z(sp["fsys"][0], nat), "step"]
        if c is not None:
            if binary:
                B.append("loadbuf " + hexb[:2 * c])
            else:
                B.append("loadstr " + pct(text[:c]))
        B += ["savestr", "clear_error"]
        plan.append(c)
    caseB = "\n".join(B) + "\n"
    rB = run_case(caseB, timeout=300)
    if rB.crashed:
        return Outcome(False, msg="crash/hang while loading a truncated %s state (rc=%s): %s" % ("binary" if binary else "text", rB.returncode,
                                                                                                 rB.stderr[-600:]), sig="trunc_crash", case_text=caseB)
    loads = rB.of("load")
    saves = rB.of("savestr")
    if len(saves) != len(plan) or len(loads) != len(plan) - 1:
        return Outcome(False, msg="harness: %d saves %d loads for %d plans" % (len(saves), len(loads), len(plan)), sig="harness", case_text=caseB)
    none_blocks = cvz.split_blocks(saves[0]["state"])
    full_blocks = cvz.split_blocks(saves[1]["state"])
    if loads[0]["rc"] != 0 or loads[0]["errbits"]:
        return Outcome(False, msg="the complete state is rejected: %s" % loads[0]["errs"], sig="gen_invalid", case_text=caseB)
    names = [k for k, _, _ in spans]
    ninside = 0
    nerr = 0
    known_cut = None
    for k, c in enumerate(cuts):
        ld = loads[k + 1]
        sv = saves[k + 2]["state"]
        accepted = ld["rc"] == 0 and ld["errbits"] == 0
        nerr += (not accepted)
        inside = None
        if not binary:
            for kw, o, cl in spans:
                if kw != "configuration" and o < c <= cl:
                    inside = kw
        if inside:
            ninside += 1
            if accepted:
                return Outcome(False, msg="text state (%d bytes) cut at byte %d, inside the '%s' block (braces at %s): the load reports no error" % (
                    size, c, inside, [(o, cl) for kw, o, cl in spans if kw == inside][:3]), sig="trunc_accepted_midblock", case_text=caseB)
        if accepted:
            blocks = cvz.split_blocks(sv)
            if len(blocks) != len(full_blocks):
                return Outcome(False, msg="state saved after loading a cut state has %d blocks instead of %d" % (len(blocks), len(full_blocks)),
                               sig="trunc_blocks", case_text=caseB)
            for (kw, body), (_, fb), (_, nb) in zip(blocks, full_blocks, none_blocks):
                if kw == "configuration":
                    continue
                # every object writes the module's current step number: not part of the object's own data
                body, fb, nb = [re.sub(r"(\n\s*step\s+)\d+", r"\g<1>0", x, count=1) for x in (body, fb, nb)]
                if compare_states(body, fb, 1e-12) is None or compare_states(body, nb, 1e-12) is None:
                    continue
                if binary and kw == "metadynamics":
                    # recorded finding: the binary form of the hills list has neither a count nor a terminator, so a state that ends
                    # exactly between two hill records (or right after the grids) cannot be told from a complete one
                    hl = lambda t: re.findall(r"hill\s*\{.*?\}", t, re.S)
                    strip = lambda t: re.sub(r"hill\s*\{.*?\}\s*", "", t, flags=re.S)
                    hc, hf = hl(body), hl(fb)
                    if len(hc) < len(hf) and all(compare_states(a, b, 1e-12) is None for a, b in zip(hc, hf)) and \
                            compare_states(strip(body), strip(fb), 1e-12) is None:
                        known_cut = known_cut or ("binary state (%d bytes) cut at byte %d is accepted without error: the metadynamics bias is "
                                                  "left with %d of its %d explicit hills" % (size, c, len(hc), len(hf)))
                        continue
                return Outcome(False, msg="%s state (%d bytes) cut at byte %d is accepted without error and leaves the %s object half loaded: its "
                               "saved block equals neither the fully loaded nor the never-loaded object (vs full: %s; vs fresh: %s)" % (
                                   "binary" if binary else "text", size, c, kw, compare_states(body, fb, 1e-12), compare_states(body, nb, 1e-12)),
                               sig="trunc_half_loaded", case_text=caseB)
    if known_cut:
        return Outcome(False, msg=known_cut, sig="binary_meta_hills_cut", case_text=caseB)
    kinds = "+".join(sorted(b["kind"] for b in sp["z"]["biases"]))
    return Outcome(True, nontrivial=(ninside >= 1 or binary) and nerr >= 1, cls=("bin" if binary else "txt", kinds),
                   strata=["trunc_binary" if binary else "trunc_text"] + (["trunc_inside"] if ninside else []) + (["trunc_rejected"] if nerr else []),
                   case_text=caseB)


# ------------------------------------------------------------------------------------------------------------
# crash points

@st.composite
def spec_crash(draw, tier):
    # OPES is left out here: what it writes at a given step is the subject of a recorded C03 finding (stale snapshot), which would
    # make "equals a reference state" meaningless for it
    sp = draw(zoo_case(6, 14, kinds=[k for k in KINDS if k != "opes"]))
    sp["binary"] = draw(st.booleans())
    sp["R"] = draw(st.sampled_from([2, 3, 4]))
    sp["second"] = draw(st.booleans())
    # a metadynamics bias may publish its state for other walkers: that file is replaced in place (no .old) and must be complete
    # whenever it exists
    metas = [b for b in sp["z"]["biases"] if b["kind"] in ("meta", "meta_nogrid", "meta_wt")]
    sp["mw"] = bool(metas) and draw(st.booleans())
    if sp["mw"]:
        for b in metas:
            b["keep"] = False
    sp["pick"] = [draw(st.integers(0, 10 ** 6)) for _ in range(6)]
    return sp


def crash_cfg(sp, prefix):
    cfg = zoo.render(sp["z"])
    if sp.get("mw"):
        cfg = cfg.replace("metadynamics {\n", "metadynamics {\n  multipleReplicas on\n  replicaID r0\n  replicasRegistry %s\n  replicaUpdateFrequency 2\n" %
                          (prefix + "_registry.txt"), 1)
    return cfg


def mw_bias_name(sp):
    for b in sp["z"]["biases"]:
        if b["kind"] in ("meta", "meta_nogrid", "meta_wt"):
            return b["name"]
    return None


def crash_case(sp, prefix, t0, t1, load=None, die=None, post_run=True):
    L, nat = head_lines(sp, sp["binary"])
    # relative prefix: the process runs in the case's directory (files that Colvars places in the working directory, such as
    # those published for other walkers, are built from the working directory and the prefix)
    rel = os.path.basename(prefix)
    L.append("config <<END\ncolvarsRestartFrequency %d\n%s\nEND" % (sp["R"], crash_cfg(sp, rel)))
    if load:
        L.append("load " + pct(load))
    L.append("outprefix " + pct(rel))
    L.append("io_reset")
    if die:
        L.append("%s %d" % die)     # operations are counted from here on
    L += traj_lines(sp, t0, t1, nat)
    if post_run:
        L.append("post_run")
    L.append("io_report")
    return "\n".join(L) + "\n"


def try_load(sp, path):
    """(ok, saved state text) of loading 'path' in a fresh process"""
    L, nat = head_lines(sp, False)
    scratch = os.path.join(os.path.dirname(path), "loadtest")
    os.makedirs(scratch, exist_ok=True)
    L.append("config <<END\n%s\nEND" % crash_cfg(sp, os.path.join(scratch, "lt")))
    # the input prefix is the path without ".colvars.state": give the backup a loadable name, as a user would
    tmpc = None
    if path.endswith(".old"):
        tmpc = path[:-len(".colvars.state.old")] + "_oldcopy.colvars.state"
        shutil.copy(path, tmpc)
        path = tmpc
    L.append("load " + pct(path))
    L.append("savestr")
    r = run_case("\n".join(L) + "\n", cwd=scratch)
    if tmpc:
        os.unlink(tmpc)
    if r.crashed:
        return "crash", r.stderr[-400:]
    ld = r.of("load")[0]
    if ld["rc"] != 0 or ld["errbits"]:
        return "rejected", str(ld["errs"])[:300]
    return "ok", r.of("savestr")[0]["state"]


def reference_states(sp, t0, t1, load, wd, tag):
    """states a run writes (one per write), obtained from an undisturbed run that saves to a string after each writing step"""
    L, nat = head_lines(sp, False)
    refdir = os.path.join(wd, "ref_" + tag)
    os.makedirs(refdir, exist_ok=True)
    L.append("config <<END\ncolvarsRestartFrequency %d\n%s\nEND" % (sp["R"], crash_cfg(sp, "ref")))
    if load:
        L.append("load " + pct(load))
    L.append("outprefix ref")
    wig = any(b["kind"] == "alb" for b in sp["z"]["biases"])
    first = True
    for t in range(t0, t1 + 1):
        xs = [x + (0.013 * ((t * 7 + i) % 5) if wig else 0.0) for i, x in enumerate(sp["traj"][t])]
        L += [cvz.pos_line_z(xs, nat), cvz.fsys_line_z(sp["fsys"][t], nat), "step"]
        if t % sp["R"] == 0 and not first:
            L.append("savestr")
        first = False
    L += ["post_run", "savestr"]
    r = run_case("\n".join(L) + "\n", cwd=refdir)
    if r.crashed or r.of("config")[0]["rc"] != 0:
        return None
    return [s["state"] for s in r.of("savestr")]


def check_crash(sp, ctx):
    wd = os.path.join(ctx["workdir"], "c11c_%d_%d" % (os.getpid(), ctx.setdefault("n", 0)))
    ctx["n"] += 1
    os.makedirs(wd, exist_ok=True)
    try:
        return _check_crash(sp, ctx, wd)
    finally:
        shutil.rmtree(wd, ignore_errors=True)


def _check_crash(sp, ctx, wd):
    T = sp["T"]
    T1 = T // 2 if sp["second"] else T
    prefix = os.path.join(wd, "out")
    state, old = prefix + ".colvars.state", prefix + ".colvars.state.old"
    kinds = "+".join(sorted(b["kind"] for b in sp["z"]["biases"]))

    def clean():
        for f in glob.glob(prefix + "*") + glob.glob(os.path.join(wd, "*.files.txt")):
            try:
                os.unlink(f)
            except OSError:
                pass

    def run_case(text, **kw):      # every run of this part works in the case's own directory (replica files go to the cwd)
        from lib import core
        return core.run_case(text, cwd=wd, **kw)
    rep_state = prefix + ".colvars.%s.r0.state" % mw_bias_name(sp) if sp.get("mw") else None
    # reference: io operations and states of run 1
    refs = reference_states(sp, 0, T1, None, wd, "a")
    if not refs:
        return Outcome(False, msg="reference run failed", sig="gen_invalid", case_text="")
    clean()
    c0 = crash_case(sp, prefix, 0, T1)
    r0 = run_case(c0)
    if r0.crashed or not r0.of("io"):
        return Outcome(False, msg="undisturbed run failed %s" % r0.stderr[-300:], sig="gen_invalid", case_text=c0)
    ops = r0.of("io")[0]["ops"]
    nops = len(ops)
    # index of the operation that completes the first state write: the first 'close' of the state file
    first_done = None
    for k, o in enumerate(ops):
        if o.startswith("close ") and o.endswith(".colvars.state"):
            first_done = k + 1
            break
    if first_done is None:
        return Outcome(discard=True)
    nwrites = sum(1 for o in ops if o.startswith("close ") and o.endswith(".colvars.state"))
    checked = 0
    later = 0

    def verdict(what, case_text, refs_allowed):
        """after a death: at least one of the two files loads and equals a reference state"""
        res = []
        for path in (state, old):
            if not os.path.exists(path):
                res.append((path, "absent", ""))
                continue
            ok, info = try_load(sp, path)
            if ok == "crash":
                return Outcome(False, msg="%s: loading %s crashes the host: %s" % (what, os.path.basename(path), info), sig="crash_load_crash",
                               case_text=case_text)
            if ok == "ok":
                # a file only counts as a surviving state if what it loads is one of the states the run had completed or was writing
                # (a file cut between blocks loads quietly as an emptier state: the truncation part deals with what must be an error)
                match = any(compare_states(info, ref, 1e-9) is None for ref in refs_allowed)
                res.append((path, "ok" if match else "incomplete", "%d bytes" % os.path.getsize(path)))
            else:
                res.append((path, "rejected", info))
        if os.environ.get("VF_DBG"): print("VERDICT", what[:60], [(os.path.basename(p), s_, i_[:40]) for p, s_, i_ in res])
        if rep_state and os.path.exists(rep_state):
            # the state published for the other walkers is replaced in place: it must be complete whenever it exists
            scratch = os.path.join(wd, "loadtest")
            os.makedirs(scratch, exist_ok=True)
            L_, nat_ = head_lines(sp, False)
            L_.append("config <<END\n%s\nEND" % crash_cfg(sp, os.path.join(scratch, "lt")))
            L_.append("clear_error")
            L_.append("script cv bias %s load %s" % (mw_bias_name(sp), pct(rep_state)))
            rr = run_case("\n".join(L_) + "\n")
            sc = rr.of("script")
            if rr.crashed or not sc or sc[0]["rc"] != 0 or sc[0]["errbits"]:
                return Outcome(False, msg="%s: the state file published for the other walkers (%s, %d bytes) cannot be loaded: %s" % (
                    what, os.path.basename(rep_state), os.path.getsize(rep_state), (sc[0]["errs"] if sc else rr.stderr[-300:])),
                    sig="crash_replica_state_partial", case_text=case_text)
        if not any(r[1] == "ok" for r in res):
            return Outcome(False, msg="%s: no loadable state is left on disk: %s" % (
                what, [(os.path.basename(p), s, i[:120]) for p, s, i in res]), sig="crash_no_state", case_text=case_text)
        return None
    points = [("die_at", k) for k in range(1, nops + 1)] + [("die_after", k) for k in range(1, nops + 1)]
    for die in points:
        if die[1] < first_done or (die[0] == "die_at" and die[1] == first_done):
            continue        # the first state has not been completed yet
        clean()
        cc = crash_case(sp, prefix, 0, T1, die=die)
        rc = run_case(cc)
        o = verdict("run killed %s file operation %d of %d (%s)" % ("before" if die[0] == "die_at" else "after", die[1], nops, ops[die[1] - 1]),
                    cc, refs)
        if o is not None:
            return o
        checked += 1
        if die[1] > first_done + 2:
            later += 1
    nsys = 0
    if ctx["tier"] == "thorough" and not sp["second"]:
        # the same enumeration at system-call granularity, without any cooperation from the code: SIGKILL on entering the N-th
        # rename/openat/write/close/unlink call, for every N after the completion of the first state
        SET = "rename,renameat,renameat2,openat,write,close,unlink,unlinkat"
        casefile = os.path.join(wd, "case.txt")
        open(casefile, "w").write(crash_case(sp, prefix, 0, T1))
        log = os.path.join(wd, "strace.log")
        clean()
        exe = os.path.join(BUILD, "rel", "cvdrive")
        subprocess.run(["strace", "-f", "-o", log, "-e", "trace=" + SET, exe, casefile, "/dev/null"], env=dict(ENV_BASE), cwd=wd,
                       stdout=subprocess.DEVNULL, stderr=subprocess.DEVNULL, timeout=120)
        lines = [l for l in open(log, errors="replace").read().splitlines() if re.match(r"^\d+\s+(%s)\(" % SET.replace(",", "|"), l)]
        fd = None
        done_idx = None
        for k, l in enumerate(lines):
            m = re.search(r'openat\(.*"[^"]*out\.colvars\.state", O_WRONLY.*= (\d+)', l)
            if m:
                fd = m.group(1)
            elif fd is not None and re.search(r"close\(%s\)" % fd, l):
                done_idx = k + 1
                break
        if done_idx is not None:
            allN = list(range(done_idx + 1, len(lines) + 1))
            step_ = max(1, len(allN) // 120)
            for N_ in allN[::step_]:
                clean()
                subprocess.run(["strace", "-f", "-o", "/dev/null", "-e", "trace=" + SET, "-e", "inject=%s:signal=KILL:when=%d" % (SET, N_),
                                exe, casefile, "/dev/null"], env=dict(ENV_BASE), cwd=wd, stdout=subprocess.DEVNULL, stderr=subprocess.DEVNULL, timeout=120)
                o = verdict("run killed by SIGKILL on entering system call %d of %d (%s)" % (N_, len(lines), lines[N_ - 1][:90]),
                            open(casefile).read(), refs)
                if o is not None:
                    o.sig = "crash_syscall_" + o.sig
                    return o
                nsys += 1
    nseq = 0
    known_seq = None
    if sp["second"]:
        # fault sequences: a first death inside a later write, then a second run resumed from what survived, killed again
        cand = [p for p in points if p[1] > first_done + 1]
        # deaths that leave a partly written new file next to a complete backup: before the close of a later state write
        mid = [("die_at", k + 1) for k, o in enumerate(ops) if o.startswith("close ") and o.endswith(".colvars.state") and k + 1 > first_done]
        for ipk, pk in enumerate(sp["pick"][:3]):
            if not cand:
                break
            die1 = cand[pk % len(cand)]
            if ipk == 0 and mid:
                die1 = mid[pk % len(mid)]
            clean()
            c1 = crash_case(sp, prefix, 0, T1, die=die1)
            run_case(c1)
            # what the user restarts from: the newest file that loads
            src = None
            for path in (state, old):
                if os.path.exists(path):
                    ok_, info_ = try_load(sp, path)
                    if ok_ == "ok" and any(compare_states(info_, ref, 1e-9) is None for ref in refs):
                        src = path
                        break
            if src is None:
                continue
            keep = os.path.join(wd, "resume_from.colvars.state")
            shutil.copy(src, keep)
            ok, loaded = try_load(sp, keep)
            # step at which the surviving state was written
            m = re.search(r"step\s+(\d+)", loaded)
            k0 = int(m.group(1)) if m else 0
            if k0 >= T:
                continue
            refs2 = reference_states(sp, k0, T, keep, wd, "b")
            if not refs2:
                continue
            # undisturbed second run to learn its operations (on a copy of the survivors)
            snap = os.path.join(wd, "snap")
            shutil.rmtree(snap, ignore_errors=True)
            os.makedirs(snap)
            for f in glob.glob(prefix + "*"):
                shutil.copy(f, snap)
            c2 = crash_case(sp, prefix, k0, T, load=keep)
            r2 = run_case(c2)
            if r2.crashed or not r2.of("io"):
                continue
            ops2 = r2.of("io")[0]["ops"]
            mid2 = [("die_at", k + 1) for k, o in enumerate(ops2) if o.startswith("close ") and o.endswith(".colvars.state")]
            for ipk2, pk2 in enumerate(sp["pick"][3:6]):
                die2 = ("die_at" if pk2 % 2 else "die_after", 1 + (pk2 // 2) % len(ops2))
                if ipk2 == 0 and mid2:
                    die2 = mid2[0]       # inside the first state write of the resumed run
                clean()
                for f in os.listdir(snap):
                    shutil.copy(os.path.join(snap, f), wd)
                cc2 = crash_case(sp, prefix, k0, T, load=keep, die=die2)
                run_case(cc2)
                o = verdict("first run killed %s operation %d (%s); second run resumed from %s (step %d) and killed %s operation %d of %d (%s)" % (
                    "before" if die1[0] == "die_at" else "after", die1[1], ops[die1[1] - 1], os.path.basename(src), k0,
                    "before" if die2[0] == "die_at" else "after", die2[1], len(ops2), ops2[die2[1] - 1]),
                    c1 + "\n# ---- second run ----\n" + cc2, refs + [loaded] + refs2)
                if o is not None:
                    if o.sig == "crash_no_state":
                        # recorded finding: the first death left a partly written new file next to the complete backup; the resumed run
                        # moves that partial file over the backup before writing, and dies before its own first write is complete
                        first_close2 = min([k + 1 for k, op in enumerate(ops2) if op.startswith("close ") and op.endswith(".colvars.state")] or [0])
                        inside_first = die2[1] < first_close2 or (die2[0] == "die_at" and die2[1] == first_close2)
                        if src == old and inside_first:
                            if known_seq is None:
                                known_seq = o
                            continue
                        o.sig = "crash_no_state_sequence"
                    return o
                nseq += 1
    if known_seq is not None:
        known_seq.sig = "crash_backup_overwritten_by_partial"
        return known_seq
    return Outcome(True, nontrivial=later >= 1 and nwrites >= 2, cls=("bin" if sp["binary"] else "txt", kinds, "seq" if nseq else ""),
                   strata=["crash_points"] * 1 + (["crash_mw"] if sp.get("mw") else []) + (["crash_syscall"] if nsys else []) + (["crash_sequence"] if nseq else []) + (["crash_binary"] if sp["binary"] else ["crash_text"]),
                   case_text=c0)


def view(spec):
    return {k: v for k, v in spec.items() if k not in ("traj", "fsys", "fracs")}


_REQ = ["crash:crash_mw", "truncate:trunc_text", "truncate:trunc_binary", "truncate:trunc_inside", "truncate:trunc_rejected",
        "crash:crash_points", "crash:crash_sequence", "crash:crash_binary", "crash:crash_text"]
REQUIRED_STRATA = {"quick": _REQ, "thorough": _REQ + ["crash:crash_syscall"]}

PARTS = {
    "stream": {"runner": runner_stream, "replay": rcrun.replay_rc},
    "damaged": {"runner": runner_damaged, "replay": fuzzrun.replay_fuzz},
    "truncate": {"strategy": spec_trunc, "check": check_trunc, "examples": {"quick": 1600, "thorough": 6000}, "sample": view},
    "crash": {"strategy": spec_crash, "check": check_crash, "examples": {"quick": 128, "thorough": 800}, "sample": view},
}
