"""C05: the metadynamics bias is the sum of the hills deposited on schedule (model-based)."""
import itertools
import math
from hypothesis import strategies as st
from lib import cvz
from lib.gen import fl, rnd, fmt
from lib.core import Outcome, run_case, fnum, pct

ID = "C05"
LEVEL = "exploration"
RULE = ("Hypothesis generates 1-2 controlled scalar variables (periodic or not), grids, trajectories with excursions beyond both "
        "boundaries, newHillFrequency 1-4, hillWidth or gaussianSigmas, hillWeight, wellTempered+biasTemperature, useGrids, "
        "gridsUpdateFrequency, keepHills, expandBoundaries, stepZeroData, a run boundary. Oracle: reference model (hill list "
        "from the schedule rule, heights W*exp(-V/k dT), analytic Gaussian sums; with grids: tabulated hills at the centre of "
        "the current bin, untabulated ones at the actual position, all hills analytically outside the grid) compared with "
        "the bias energy and per-variable force at every step. Tolerance rel 1e-9, plus 1e-4*sum(W) outside the grid or after "
        "a grid expansion (the code drops Gaussian tails below exp(-11.5)). Non-trivial: >=3 hills, >=1 evaluation outside "
        "the grid after a hill was deposited within 3 sigma of that edge, or both tabulated and untabulated hills at a step.")
ASSUMPTIONS = ["hill widths of at least one grid spacing (2*sigma >= width): narrower hills trigger the library's own warning", "well-tempered + grids is tested with gridsUpdateFrequency = newHillFrequency (every hill tabulated before the next deposition)"]
KB = 0.001987191


@st.composite
def spec_meta(draw, tier):
    nvar = draw(st.sampled_from([1, 1, 2]))
    grids = [draw(cvz.grid_def(6, 12)) for _ in range(nvar)]
    periodic = [draw(st.integers(0, 3)) == 0 for _ in range(nvar)]
    use_grids = draw(st.integers(0, 3)) != 0
    nf = draw(st.integers(1, 4))
    wt = draw(st.integers(0, 2)) == 0
    gfreq = nf if (wt or draw(st.booleans())) else nf * draw(st.integers(2, 3))
    sig_mode = draw(st.booleans())
    hw = draw(st.sampled_from([1.0, 1.5, 2.0, 2.6, 3.3]))
    sigmas = [rnd(draw(fl(0.52, 1.6)) * g["width"], 3) for g in grids] if sig_mode else [g["width"] * hw / 2.0 for g in grids]
    expand = [(not periodic[i]) and use_grids and draw(st.integers(0, 3)) == 0 for i in range(nvar)]
    T = draw(st.integers(6, 36))
    cur = [draw(cvz.value_in_grid(g)) for g in grids]
    steps = []
    for t in range(T):
        for i, g in enumerate(grids):
            mv = draw(st.integers(0, 4))
            if mv == 0:
                cur[i] = draw(cvz.value_in_grid(g, outside_p=3))
            elif mv <= 2:
                cur[i] = cur[i] + rnd(draw(fl(-1.2, 1.2)), 3) * g["width"]
        steps.append([rnd(c, 6) for c in cur])
    return {"nvar": nvar, "grids": grids, "periodic": periodic, "use_grids": use_grids, "nf": nf, "gfreq": gfreq, "wt": wt,
            "biastemp": rnd(draw(fl(200, 3000)), 0), "W": rnd(draw(fl(0.05, 2.0)), 3), "sig_mode": sig_mode, "hw": hw,
            "sigmas": sigmas, "keep": draw(st.booleans()), "expand": expand, "steps": steps,
            "newrun": draw(st.integers(1, T - 1)) if draw(st.integers(0, 2)) == 0 else None,
            "szd": draw(st.integers(0, 3)) == 0}


def build_case(spec):
    nv = spec["nvar"]
    natoms = nv + 1
    cfg = []
    for i, g in enumerate(spec["grids"]):
        extra = {}
        if spec["expand"][i]:
            extra["expandBoundaries"] = "on"
        cfg.append(cvz.zvar("z%d" % i, i + 1, g["lower"], g["upper"], g["width"], periodic=spec["periodic"][i], extra=extra))
    m = ["metadynamics {", "  name meta", "  colvars " + " ".join("z%d" % i for i in range(nv)), "  hillWeight %s" % fmt(spec["W"]),
         "  newHillFrequency %d" % spec["nf"]]
    if spec["sig_mode"]:
        m.append("  gaussianSigmas " + " ".join(fmt(s) for s in spec["sigmas"]))
    else:
        m.append("  hillWidth %s" % fmt(spec["hw"]))
    if not spec["use_grids"]:
        m.append("  useGrids off")
    else:
        m.append("  writeFreeEnergyFile off")
        if spec["gfreq"] != spec["nf"]:
            m.append("  gridsUpdateFrequency %d" % spec["gfreq"])
        if spec["keep"]:
            m.append("  keepHills on")
    if spec["wt"]:
        m += ["  wellTempered on", "  biasTemperature %s" % fmt(spec["biastemp"])]
    if spec["szd"]:
        m.append("  stepZeroData on")
    m.append("}")
    cfg.append("\n".join(m))
    L = cvz.header(natoms, 0, temperature=300.0)
    L.append("config <<END\n%s\nEND" % "\n".join(cfg))
    for t, x in enumerate(spec["steps"]):
        if spec["newrun"] == t:
            L += ["newrun", "step"]
        L.append(cvz.pos_line_z(x, natoms))
        L.append("step")
    return "\n".join(L) + "\n"


def evaluations(spec):
    ev = []
    for t, x in enumerate(spec["steps"]):
        if spec["newrun"] == t:
            ev.append({"it": t - 1, "cont": True, "x": spec["steps"][t - 1]})
        ev.append({"it": t, "cont": False, "x": x})
    return ev


def model(spec):
    nv = spec["nvar"]
    G0 = spec["grids"]
    per = spec["periodic"]
    P = [g["n"] * g["width"] for g in G0]
    sig = spec["sigmas"]
    lower = [g["lower"] for g in G0]
    size = [g["n"] for g in G0]
    wid = [g["width"] for g in G0]
    weff = spec["hw"] if not spec["sig_mode"] else max(2.0 * s / w for s, w in zip(sig, wid))
    min_buffer = 3 * int(math.floor(weff)) + 1

    def wrapv(i, x):
        if per[i]:
            return x - P[i] * math.floor((x - G0[i]["lower"]) / P[i])
        return x

    def diff(i, a, b):
        d = a - b
        if per[i]:
            d -= P[i] * math.floor(d / P[i] + 0.5)
        return d

    def gauss(h, y):
        s = 0.0
        for i in range(nv):
            d = diff(i, y[i], h["c"][i])
            s += d * d / (sig[i] * sig[i])
        border = abs(s - 23.0) < 1e-6
        return (math.exp(-0.5 * s) if s <= 23.0 else 0.0), border

    hills = []          # dicts: c, W, projected (bool), ext: extents at projection
    out = []
    info = {"n_off_after_edge_hill": 0, "mixed": 0, "expansions": 0, "offgrid": 0}
    expanded = False
    for e in evaluations(spec):
        x = [wrapv(i, v) for i, v in enumerate(e["x"])]
        tol_extra = 0.0
        # --- grid expansion
        if spec["use_grids"]:
            cb = [int(math.floor((x[i] - lower[i]) / wid[i])) for i in range(nv)]
            for i in range(nv):
                if not spec["expand"][i]:
                    continue
                if cb[i] < min_buffer:
                    extra = min_buffer - cb[i]
                    lower[i] -= extra * wid[i]
                    size[i] += extra
                    cb[i] += extra
                    expanded = True
                    info["expansions"] += 1
                if cb[i] > size[i] - min_buffer - 1:
                    extra = cb[i] - (size[i] - 1) + min_buffer
                    size[i] += extra
                    expanded = True
                    info["expansions"] += 1
        on_grid = spec["use_grids"] and all(0 <= int(math.floor((x[i] - lower[i]) / wid[i])) < size[i] for i in range(nv))
        centre = [lower[i] + (math.floor((x[i] - lower[i]) / wid[i]) + 0.5) * wid[i] for i in range(nv)] if on_grid else None

        def in_ext(h, y):
            lo, n = h["ext"]
            return all(per[i] or (lo[i] - 1e-9 <= y[i] <= lo[i] + n[i] * wid[i] + 1e-9) for i in range(nv))
        # --- deposition
        rel = e["it"]
        can_acc = ((rel > 0) and not e["cont"]) or spec["szd"]
        if spec["nf"] > 0 and e["it"] % spec["nf"] == 0 and can_acc:
            scale = 1.0
            if spec["wt"]:
                V = 0.0
                for h in hills:
                    if spec["use_grids"] and on_grid:
                        if h["projected"] and in_ext(h, centre):
                            V += h["W"] * gauss(h, centre)[0]
                    else:
                        V += h["W"] * gauss(h, x)[0]
                scale = math.exp(-V / (spec["biastemp"] * KB))
                # the bias the height is taken from is itself only known to the tolerance of the evaluation below (off the grid the
                # code leaves out the tails of tabulated hills; earlier heights carry their own uncertainty): propagate it
                yv = centre if (spec["use_grids"] and on_grid) else x
                v_unc = sum(h["dW"] * gauss(h, yv)[0] for h in hills if h["dW"])
                if spec["use_grids"] and not on_grid:
                    v_unc += 2e-4 * sum(h["W"] for h in hills)
                rel_unc = v_unc / (spec["biastemp"] * KB)
                if rel_unc > 1e-3:
                    info["tol_blowup"] = True     # the case no longer decides anything: reported as trivial
                    rel_unc = 1e-3
                dW = spec["W"] * scale * (math.exp(rel_unc) - 1.0)
            else:
                dW = 0.0
            hills.append({"c": list(x), "W": spec["W"] * scale, "projected": False, "ext": None, "it": e["it"], "dW": dW})
        # --- projection
        if spec["use_grids"] and spec["gfreq"] > 0 and e["it"] % spec["gfreq"] == 0:
            for h in hills:
                if not h["projected"]:
                    h["projected"] = True
                    h["ext"] = (list(lower), list(size))
        # --- energy and forces
        E = 0.0
        F = [0.0] * nv
        nproj = nunproj = 0
        border = False
        for h in hills:
            if spec["use_grids"] and h["projected"]:
                if on_grid:
                    y = centre
                    if not in_ext(h, y):
                        continue
                else:
                    y = x
                nproj += 1
            else:
                y = x
                nunproj += 1
            g, b = gauss(h, y)
            border = border or b
            E += h["W"] * g
            for i in range(nv):
                F[i] += h["W"] * g * diff(i, y[i], h["c"][i]) / (sig[i] * sig[i])
        sumW = sum(h["W"] for h in hills)
        tol_extra += sum(h["dW"] for h in hills)
        if info.get("tol_blowup"):
            tol_extra += 1e300
        if spec["use_grids"] and not on_grid:
            tol_extra += 2e-4 * sumW
            info["offgrid"] += 1
            # was a hill deposited within 3 sigma of the edge we are beyond?
            for h in hills:
                if any(abs(diff(i, x[i], h["c"][i])) < 3 * sig[i] + 4 * wid[i] for i in range(nv)):
                    info["n_off_after_edge_hill"] += 1
                    break
        if expanded:
            tol_extra += 1e-4 * sumW
        if border:
            tol_extra += 2e-5 * sumW
        if nproj and nunproj:
            info["mixed"] += 1
        out.append({"E": E, "F": F, "tol": tol_extra, "nh": len(hills)})
    return out, info, hills


def check_meta(spec, ctx):
    case = build_case(spec)
    r = run_case(case)
    if r.crashed:
        return Outcome(False, msg="crash rc=%s %s" % (r.returncode, r.stderr[-600:]), sig="crash", case_text=case)
    c = r.of("config")[0]
    if c["rc"] != 0:
        return Outcome(False, msg="generated configuration rejected: %s" % c["errs"], sig="gen_invalid", case_text=case)
    steps = r.of("step")
    exp, info, hills = model(spec)
    if len(steps) != len(exp):
        return Outcome(False, msg="expected %d evaluations, trace has %d" % (len(exp), len(steps)), sig="harness", case_text=case)
    nv = spec["nvar"]
    for k, (s, m) in enumerate(zip(steps, exp)):
        if s["errbits"]:
            return Outcome(False, msg="error at evaluation %d: %s" % (k, s["errs"]), sig="step_error", case_text=case)
        gotE = s["bias"][0]["E"]
        tolE = 1e-9 * max(1.0, abs(m["E"])) + m["tol"]
        if abs(gotE - m["E"]) > tolE:
            return Outcome(False, msg="evaluation %d (step %d, %d hills): bias energy %r, sum of hills %r (tol %.2g)" %
                           (k, s["it"], m["nh"], gotE, m["E"], tolE), sig="energy", case_text=case)
        for i in range(nv):
            got = s["cv"][i]["f"][0]
            smin = min(spec["sigmas"])
            tolF = 1e-9 * max(1.0, abs(m["F"][i])) + m["tol"] * 6.0 / smin
            if abs(got - m["F"][i]) > tolF:
                return Outcome(False, msg="evaluation %d (step %d, %d hills) variable %d: force %r, sum of hills %r (tol %.2g)" %
                               (k, s["it"], m["nh"], i, got, m["F"][i], tolF), sig="force", case_text=case)
    if info.get("tol_blowup"):
        return Outcome(True, nontrivial=False, cls=("tol_blowup",), strata=["tol_blowup"], case_text=case)
    nontrivial = len(hills) >= 3 and (info["n_off_after_edge_hill"] >= 1 or info["mixed"] >= 1 or not spec["use_grids"])
    cls = ("nv%d" % nv, "grids" if spec["use_grids"] else "nogrids", "wt" if spec["wt"] else "", "sig" if spec["sig_mode"] else "hw",
           "per" if any(spec["periodic"]) else "", "keep" if spec["keep"] else "", "expand" if any(spec["expand"]) else "",
           "gf" if spec["gfreq"] != spec["nf"] else "", "newrun" if spec["newrun"] is not None else "", "szd" if spec["szd"] else "")
    strata = [c_ for c_ in cls if c_]
    if info["offgrid"]:
        strata.append("offgrid_eval")
    if info["n_off_after_edge_hill"]:
        strata.append("offgrid_after_edge_hill")
    if info["mixed"]:
        strata.append("mixed_tabulated_untabulated")
    if info["expansions"]:
        strata.append("grid_expanded")
    return Outcome(True, nontrivial=nontrivial, cls=cls, strata=strata, case_text=case)


def sample_view(spec):
    d = {k: v for k, v in spec.items() if k != "steps"}
    d["steps_head"] = spec["steps"][:4]
    d["nsteps"] = len(spec["steps"])
    return d


PARTS = {"meta": {"strategy": spec_meta, "check": check_meta, "examples": {"quick": 15000, "thorough": 60000}, "sample": sample_view}}
REQUIRED_STRATA = {"all": ["meta:grids", "meta:nogrids", "meta:wt", "meta:sig", "meta:per", "meta:keep", "meta:expand", "meta:gf",
                           "meta:offgrid_after_edge_hill", "meta:mixed_tabulated_untabulated", "meta:grid_expanded", "meta:nv2"]}


# ------------------------------------------------------------------------------------------------------------
# non-scalar variable without grids

@st.composite
def spec_vec(draw, tier):
    T = draw(st.integers(5, 24))
    cur = [rnd(draw(fl(-2, 2)), 3) for _ in range(3)]
    steps = []
    for t in range(T):
        cur = [rnd(c + draw(fl(-0.6, 0.6)), 3) for c in cur]
        steps.append(list(cur))
    return {"steps": steps, "nf": draw(st.integers(1, 4)), "W": rnd(draw(fl(0.05, 2.0)), 3), "hw": draw(st.sampled_from([1.0, 2.0, 3.0])),
            "width": draw(st.sampled_from([0.25, 0.5, 1.0])), "wt": draw(st.integers(0, 2)) == 0, "biastemp": rnd(draw(fl(200, 3000)), 0),
            "unit": draw(st.integers(0, 2)) == 0, "newrun": draw(st.integers(1, T - 1)) if draw(st.integers(0, 2)) == 0 else None,
            "szd": draw(st.integers(0, 3)) == 0}


def check_vec(spec, ctx):
    comp = "distanceDir" if spec["unit"] else "distanceVec"
    cfg = ("colvar {\n  name v\n  width %s\n  %s {\n    group1 { dummyAtom (0, 0, 0) }\n    group2 { atomNumbers 1 }\n  }\n}\n" % (fmt(spec["width"]), comp))
    m = ["metadynamics {", "  name meta", "  colvars v", "  hillWeight %s" % fmt(spec["W"]), "  newHillFrequency %d" % spec["nf"],
         "  hillWidth %s" % fmt(spec["hw"]), "  useGrids off"]
    if spec["wt"]:
        m += ["  wellTempered on", "  biasTemperature %s" % fmt(spec["biastemp"])]
    if spec["szd"]:
        m.append("  stepZeroData on")
    m.append("}")
    L = cvz.header(2, 0, temperature=300.0) + ["config <<END\n%s%s\nEND" % (cfg, "\n".join(m))]
    ev = []
    for t, x in enumerate(spec["steps"]):
        if spec["newrun"] == t:
            L += ["newrun", "step"]
            ev.append((t - 1, True))
        L.append("pos " + " ".join(fnum(c) for c in x + [0.5, 0.5, 0.5]))
        L.append("step")
        ev.append((t, False))
    case = "\n".join(L) + "\n"
    r = run_case(case)
    if r.crashed or r.of("config")[0]["rc"] != 0:
        return Outcome(False, msg="crash/rejected %s %s" % (r.stderr[-300:], r.of("config")[:1]), sig="gen_invalid", case_text=case)
    sig = spec["hw"] * spec["width"] / 2.0
    hills = []
    for (it, cont), s in zip(ev, r.of("step")):
        if s["errbits"]:
            return Outcome(False, msg="step error %s" % s["errs"], sig="step_error", case_text=case)
        x = s["cv"][0]["x"]                  # the variable's own value (a unit vector for distanceDir)

        def d2(a, b):
            if spec["unit"]:
                c = max(-1.0, min(1.0, sum(p * q for p, q in zip(a, b))))
                return math.acos(c) ** 2
            return sum((p - q) ** 2 for p, q in zip(a, b))
        can_acc = ((it > 0) and not cont) or spec["szd"]
        if it % spec["nf"] == 0 and can_acc:
            scale = 1.0
            if spec["wt"]:
                V = sum(h["W"] * math.exp(-0.5 * d2(x, h["c"]) / (sig * sig)) for h in hills)
                scale = math.exp(-V / (spec["biastemp"] * KB))
            hills.append({"c": list(x), "W": spec["W"] * scale})
        E = 0.0
        for h in hills:
            s2 = d2(x, h["c"]) / (sig * sig)
            if s2 <= 23.0:
                E += h["W"] * math.exp(-0.5 * s2)
        got = s["bias"][0]["E"]
        tol = 1e-9 * max(1.0, abs(E)) + 2e-5 * sum(h["W"] for h in hills)
        if abs(got - E) > tol:
            return Outcome(False, msg="step %d (%d hills) %s variable: bias energy %r, sum of the hills %r" % (it, len(hills), comp, got, E),
                           sig="vec_energy", case_text=case)
        if not spec["unit"]:
            F = [sum(h["W"] * math.exp(-0.5 * d2(x, h["c"]) / (sig * sig)) * (x[k] - h["c"][k]) / (sig * sig) for h in hills
                     if d2(x, h["c"]) / (sig * sig) <= 23.0) for k in range(3)]
            gf = s["cv"][0]["f"]
            if any(abs(a - b) > 1e-9 * max(1.0, abs(b)) + 2e-4 * sum(h["W"] for h in hills) / sig for a, b in zip(gf, F)):
                return Outcome(False, msg="step %d (%d hills): force on the vector variable %r, gradient of the hills %r" % (it, len(hills), gf, F),
                               sig="vec_force", case_text=case)
    return Outcome(True, nontrivial=len(hills) >= 3, cls=("vec", comp, "wt" if spec["wt"] else ""), strata=["vec:" + comp] + (["vec:wt"] if spec["wt"] else []),
                   case_text=case)


PARTS["vector"] = {"strategy": spec_vec, "check": check_vec, "examples": {"quick": 5000, "thorough": 16000}, "sample": lambda s_: {k: v for k, v in s_.items() if k != "steps"}}
REQUIRED_STRATA["all"] = REQUIRED_STRATA["all"] + ["vector:vec:distanceVec", "vector:vec:distanceDir", "vector:vec:wt"]


# --------------------------------------------------------------------------------------------
# a run continued from a state with different hill widths: every hill keeps the width it was deposited with

@st.composite
def spec_rewidth(draw, tier):
    K = draw(st.integers(2, 8))
    M = draw(st.integers(2, 8))
    return {"K": K, "M": M, "x": [rnd(draw(fl(0.5, 4.5)), 3) for _ in range(K + M + 1)], "W": rnd(draw(fl(0.1, 2.0)), 2),
            "hwA": draw(st.sampled_from([1.0, 2.0, 3.0])), "hwB": draw(st.sampled_from([1.0, 1.5, 2.0, 4.0])), "width": draw(st.sampled_from([0.25, 0.5])),
            "sig_mode": draw(st.booleans())}


def check_rewidth(spec, ctx):
    K, M, w = spec["K"], spec["M"], spec["width"]

    def cfg(hw):
        wline = "  gaussianSigmas %s" % fmt(0.5 * hw * w) if spec["sig_mode"] else "  hillWidth %s" % fmt(hw)
        return (cvz.zvar("z0", 1, 0.0, 5.0, w) + "\nmetadynamics {\n  name m\n  colvars z0\n  hillWeight %s\n%s\n  newHillFrequency 1\n  useGrids off\n}\n" % (
            fmt(spec["W"]), wline))
    L1 = cvz.header(2, 0) + ["config <<END\n%s\nEND" % cfg(spec["hwA"])]
    for t in range(K + 1):
        L1 += [cvz.pos_line_z([spec["x"][t]], 2), "step"]
    L1.append("savestr")
    c1 = "\n".join(L1) + "\n"
    r1 = run_case(c1)
    if r1.crashed or r1.of("config")[0]["rc"] != 0:
        return Outcome(False, msg="first segment failed %s %s" % (r1.of("config")[:1], r1.stderr[-300:]), sig="gen_invalid", case_text=c1)
    state = r1.of("savestr")[0]["state"]
    L2 = cvz.header(2, 0) + ["setstep %d" % K, "config <<END\n%s\nEND" % cfg(spec["hwB"]), "loadstr %s" % pct(state)]
    for t in range(K, K + M + 1):
        L2 += [cvz.pos_line_z([spec["x"][t]], 2), "step"]
    c2 = "\n".join(L2) + "\n"
    r2 = run_case(c2)
    full = c1 + "\n# ---- continuation with other widths ----\n" + c2
    if r2.crashed:
        return Outcome(False, msg="crash in the continuation %s" % r2.stderr[-300:], sig="crash", case_text=full)
    if r2.of("config")[0]["rc"] != 0 or r2.of("load")[0]["rc"] != 0:
        return Outcome(False, msg="continuation rejected: %s %s" % (r2.of("config")[0]["errs"], r2.of("load")[0]["errs"]), sig="gen_invalid", case_text=full)
    sA, sB = 0.5 * spec["hwA"] * w, 0.5 * spec["hwB"] * w
    hills = [(spec["x"][t], sA) for t in range(1, K + 1)]       # deposited at steps 1..K of the first run
    for s in r2.of("step"):
        t = s["it"]
        if s["errbits"]:
            return Outcome(False, msg="step error %s" % s["errs"], sig="step_error", case_text=full)
        if t > K:
            hills.append((spec["x"][t], sB))
        x = spec["x"][t]
        E = F = 0.0
        for c, sg in hills:
            u = (x - c) ** 2 / (sg * sg)
            if u <= 23.0:
                g = spec["W"] * math.exp(-0.5 * u)
                E += g
                F += g * (x - c) / (sg * sg)
        gotE, gotF = s["bias"][0]["E"], s["cv"][0]["f"][0]
        if abs(gotE - E) > 1e-9 * max(1.0, abs(E)) + 2e-5 * spec["W"] * len(hills) or abs(gotF - F) > 1e-9 * max(1.0, abs(F)) + 2e-4 * spec["W"] * len(hills) / min(sA, sB):
            return Outcome(False, msg="step %d of a run continued with hill width %r after %d hills of width %r: energy %r force %r; the hills with the widths "
                           "they were deposited with give %r and %r" % (t, sB, K, sA, gotE, gotF, E, F), sig="rewidth", case_text=full)
    return Outcome(True, nontrivial=spec["hwA"] != spec["hwB"], cls=("rewidth", "sig" if spec["sig_mode"] else "hw"), strata=["rewidth"] + (["rewidth_changed"] if spec["hwA"] != spec["hwB"] else []),
                   case_text=full)


PARTS["rewidth"] = {"strategy": spec_rewidth, "check": check_rewidth, "examples": {"quick": 1500, "thorough": 12000}, "sample": lambda s_: s_}
REQUIRED_STRATA = {"all": REQUIRED_STRATA["all"] + ["rewidth:rewidth_changed"]}
