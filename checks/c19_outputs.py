"""C19: written outputs faithfully describe the internal state at the stated step."""
import math
import os
import re
from hypothesis import strategies as st
from lib import cvz
from lib.gen import fl, rnd, fmt
from lib.core import Outcome, run_case, fnum, pct

ID = "C19"
LEVEL = "exploration"
RULE = ("(traj) Hypothesis generates 1-3 variables (controlled scalars with every combination of outputValue/Velocity/"
        "TotalForce/AppliedForce, an extended-Lagrangian one with outputEnergy, a 3-vector) and biases with outputEnergy, "
        "outputCenters, outputAccumulatedWork, colvarsTrajFrequency 1-9, an object added in the middle of the run, two run "
        "segments; oracle: every data line of <prefix>.colvars.traj has exactly the columns of the latest label line, its step is "
        "a multiple of the frequency and every multiple appears (once per run segment), and each column equals the quantity "
        "of the engine-side trace at that step (14 digits). (runave) running average and standard deviation equal the textbook "
        "mean and sample standard deviation of the last runAveLength sampled values. (corrfunc) the coordinate autocorrelation "
        "function equals the mean lagged product over the available origins, normalised as documented. Non-trivial: >=3 output "
        "lines, >=2 column kinds, window filled at least twice.")
ASSUMPTIONS = ["correlation functions: autocorrelation of coordinate type with offset 0; the first step of a run only initialises the analysis"]


def parse_traj(text):
    """list of ('label', [names]) / ('data', step, [columns]) where a column is a float or a list (vector in parentheses)"""
    out = []
    for line in text.splitlines():
        if not line.strip():
            continue
        if line.lstrip().startswith("#"):
            out.append(("label", line.lstrip()[1:].split()))
            continue
        toks = line.replace("(", " ( ").replace(")", " ) ").replace(",", " ").split()
        cols = []
        i = 0
        while i < len(toks):
            if toks[i] == "(":
                j = toks.index(")", i)
                cols.append([float(t) for t in toks[i + 1:j]])
                i = j + 1
            else:
                cols.append(float(toks[i]))
                i += 1
        out.append(("data", int(cols[0]), cols[1:]))
    return out


@st.composite
def spec_traj(draw, tier):
    nv = draw(st.integers(1, 3))
    vs = []
    for i in range(nv):
        kind = draw(st.sampled_from(["z", "z", "z", "ext", "vec"]))
        v = {"name": "v%d" % i, "kind": kind, "atom": i + 1, "flags": {}}
        if kind != "vec":
            for fl_, p in (("outputValue", 5), ("outputVelocity", 2), ("outputTotalForce", 2), ("outputAppliedForce", 2)):
                on = draw(st.integers(0, 5)) < p
                if fl_ == "outputValue":
                    if not on:
                        v["flags"][fl_] = "off"
                elif on:
                    v["flags"][fl_] = "on"
            if kind == "ext":
                v["flags"].pop("outputTotalForce", None)
                if draw(st.booleans()):
                    v["flags"]["outputEnergy"] = "on"
        else:
            if draw(st.booleans()):
                v["flags"]["outputAppliedForce"] = "on"
        if kind == "z" and i > 0 and draw(st.integers(0, 3)) == 0:
            # computed every 2nd / 3rd step only: its columns stay in every line (last computed value)
            v["tsf"] = draw(st.sampled_from([2, 3]))
        vs.append(v)
    nb = draw(st.integers(0, 2))
    bs = []
    for j in range(nb):
        kind = draw(st.sampled_from(["harmonic", "harmonic_moving", "harmonic_k", "walls", "meta"]))
        scal = [i for i, v in enumerate(vs) if v["kind"] != "vec" and not v.get("tsf")]
        if not scal:
            break
        bs.append({"name": "b%d" % j, "kind": kind, "var": draw(st.sampled_from(scal)), "energy": draw(st.booleans()),
                   "k": rnd(draw(fl(0.5, 5)), 2), "c": rnd(draw(fl(-1, 3)), 2)})
    T = draw(st.integers(6, 40))
    traj = [[[rnd(0.3 * a + draw(fl(-0.3, 0.3)), 3), rnd(0.1 * a + draw(fl(-0.3, 0.3)), 3), rnd(1.0 + draw(fl(-2, 2)), 3)] for a in range(5)]
            for _ in range(T)]
    return {"vars": vs, "biases": bs, "freq": draw(st.integers(1, 9)), "T": T, "traj": traj,
            "fsys": [[rnd(draw(fl(-3, 3)), 2) for _ in range(5)] for _ in range(T)],
            "add_at": draw(st.integers(2, T - 1)) if draw(st.booleans()) else None,
            "newrun": draw(st.integers(2, T - 1)) if draw(st.booleans()) else None, "first": draw(st.sampled_from([0, 0, 4, 10]))}


def var_cfg(v):
    ex = dict(v["flags"])
    if v.get("tsf"):
        ex["timeStepFactor"] = str(v["tsf"])
    if v["kind"] == "ext":
        ex.update({"extendedLagrangian": "on", "extendedFluctuation": "0.3", "extendedTimeConstant": "40", "extendedLangevinDamping": "0",
                   "extendedTemp": "300"})
    if v["kind"] == "vec":
        L = ["colvar {", "  name " + v["name"]] + ["  %s %s" % kv for kv in ex.items()] + \
            ["  distanceVec {", "    group1 { atomNumbers %d }" % v["atom"], "    group2 { atomNumbers 5 }", "  }", "}"]
        return "\n".join(L)
    return cvz.zvar(v["name"], v["atom"], -20, 20, 0.5, extra=ex)


def bias_cfg(b, vs):
    v = vs[b["var"]]["name"]
    e = "  outputEnergy on\n" if b["energy"] else ""
    if b["kind"] == "harmonic":
        return "harmonic {\n  name %s\n  colvars %s\n  centers %s\n  forceConstant %s\n%s}" % (b["name"], v, fmt(b["c"]), fmt(b["k"]), e)
    if b["kind"] == "harmonic_moving":
        return ("harmonic {\n  name %s\n  colvars %s\n  centers %s\n  targetCenters %s\n  targetNumSteps 7\n  forceConstant %s\n"
                "  outputCenters on\n  outputAccumulatedWork on\n%s}" % (b["name"], v, fmt(b["c"]), fmt(b["c"] + 1.5), fmt(b["k"]), e))
    if b["kind"] == "harmonic_k":
        return ("harmonic {\n  name %s\n  colvars %s\n  centers %s\n  targetForceConstant %s\n  targetNumSteps 6\n  forceConstant %s\n"
                "  outputAccumulatedWork on\n%s}" % (b["name"], v, fmt(b["c"]), fmt(b["k"] * 2), fmt(b["k"]), e))
    if b["kind"] == "walls":
        return "harmonicWalls {\n  name %s\n  colvars %s\n  lowerWalls %s\n  upperWalls %s\n  forceConstant %s\n%s}" % (
            b["name"], v, fmt(b["c"]), fmt(b["c"] + 1), fmt(b["k"]), e)
    return "metadynamics {\n  name %s\n  colvars %s\n  hillWeight 0.2\n  hillWidth 2.0\n  newHillFrequency 2\n  useGrids off\n%s}" % (b["name"], v, e)


def check_traj(spec, ctx):
    prefix = os.path.join(ctx["workdir"], "o%d" % os.getpid())
    for f in (prefix + ".colvars.traj", prefix + ".colvars.traj.BAK"):
        if os.path.exists(f):
            os.unlink(f)
    vs, bs = spec["vars"], spec["biases"]
    tf = 1 if any("outputTotalForce" in v["flags"] for v in vs) else 0
    L = ["natoms 5", "tf_mode %d" % tf, "temperature 0x1.2cp+8", "setstep %d" % spec["first"], "outprefix %s" % pct(prefix)]
    late = vs[-1] if spec["add_at"] is not None and len(vs) > 1 and not any(b["var"] == len(vs) - 1 for b in bs) else None
    early = [v for v in vs if v is not late]
    cfg = "colvarsTrajFrequency %d\n" % spec["freq"] + "\n".join(var_cfg(v) for v in early) + "\n" + "\n".join(bias_cfg(b, vs) for b in bs)
    L.append("config <<END\n%s\nEND" % cfg)
    for t in range(spec["T"]):
        if late is not None and t == spec["add_at"]:
            L.append("config <<END\n%s\nEND" % var_cfg(late))
        if spec["newrun"] == t:
            L += ["newrun", "step"]
        L.append("pos " + " ".join(fnum(c) for a in spec["traj"][t] for c in a))
        L.append("fsys " + " ".join(fnum(c) for a in spec["fsys"][t] for c in (0.0, 0.0, a)))
        L.append("step")
    L.append("post_run")
    case = "\n".join(L) + "\n"
    r = run_case(case)
    if r.crashed:
        return Outcome(False, msg="crash %s" % r.stderr[-400:], sig="crash", case_text=case)
    for c in r.of("config"):
        if c["rc"] != 0:
            return Outcome(False, msg="configuration rejected: %s" % c["errs"], sig="gen_invalid", case_text=case)
    try:
        text = open(prefix + ".colvars.traj").read()
    except OSError:
        return Outcome(False, msg="no trajectory file written", sig="no_traj", case_text=case)
    recs = parse_traj(text)
    steps = r.of("step")
    # trace evaluations in order; the trajectory lines are written in the same order (one per evaluation at a multiple of freq)
    expected = [s for s in steps if s["it"] % spec["freq"] == 0]
    data = [x for x in recs if x[0] == "data"]
    if len(data) != len(expected):
        return Outcome(False, msg="%d data lines, but %d evaluations fell on multiples of colvarsTrajFrequency %d (steps written: %s; expected: %s)" %
                       (len(data), len(expected), spec["freq"], [d[1] for d in data][:30], [s["it"] for s in expected][:30]), sig="traj_lines",
                       case_text=case)
    label = None
    di = 0
    kinds = set()
    for rec in recs:
        if rec[0] == "label":
            label = rec[1][1:] if rec[1] and rec[1][0] == "step" else rec[1]
            continue
        _, step, cols = rec
        s = expected[di]
        di += 1
        if step != s["it"]:
            return Outcome(False, msg="data line %d carries step %d, the evaluation it was written at is step %d" % (di, step, s["it"]), sig="traj_step",
                           case_text=case)
        if label is None:
            return Outcome(False, msg="data line before any label line", sig="traj_nolabel", case_text=case)
        if len(cols) != len(label):
            return Outcome(False, msg="step %d: %d columns but the preceding label line announces %d (%s)" % (step, len(cols), len(label), label),
                           sig="traj_columns", case_text=case)
        cvt = {c["name"]: c for c in s["cv"]}
        bt = {b["name"]: b for b in s["bias"]}
        for name, val in zip(label, cols):
            exp = None
            if name in cvt:
                v = [x for x in vs if x["name"] == name][0]
                exp = cvt[name]["xa"] if v["kind"] == "ext" else cvt[name]["x"]
                kinds.add("value")
            elif name.startswith("r_") and name[2:] in cvt:
                exp = cvt[name[2:]]["x"]
                kinds.add("ext")
            elif name.startswith("fa_") and name[3:] in cvt:
                exp = cvt[name[3:]]["f"]
                kinds.add("fa")
            elif name.startswith("ft_") and name[3:] in cvt:
                exp = cvt[name[3:]].get("ft")
                kinds.add("ft")
            elif name.startswith("vr_") and name[3:] in cvt:
                exp = cvt[name[3:]].get("v")
                kinds.add("vr")
            elif name.startswith("E_") and name[2:] in bt:
                exp = [bt[name[2:]]["E"]]
                kinds.add("E")
            else:
                kinds.add("other")
                continue          # v_ (finite-difference velocity), Ep_/Ek_, x0_, W_: checked in C06/C17 through the state
            if exp is None:
                continue
            got = val if isinstance(val, list) else [val]
            if len(got) != len(exp) or any(abs(g - e) > 2e-13 * max(1.0, abs(e)) for g, e in zip(got, exp)):
                return Outcome(False, msg="step %d column '%s': file has %r, the module held %r at that step" % (step, name, got, exp), sig="traj_value",
                               case_text=case)
    cls = ("f%d" % spec["freq"], "late" if late is not None else "", "newrun" if spec["newrun"] is not None else "", ",".join(sorted(kinds)))
    return Outcome(True, nontrivial=len(data) >= 3 and len(kinds) >= 2, cls=cls,
                   strata=["kind:" + k for k in kinds] + (["late_object"] if late is not None else []) + (["newrun"] if spec["newrun"] is not None else []) +
                   (["sleeping_variable"] if any(v.get("tsf") for v in vs) and any(s["it"] % v["tsf"] for v in vs if v.get("tsf") for s in expected) else []),
                   case_text=case)


# ------------------------------------------------------------------------------------------ running average

@st.composite
def spec_runave(draw, tier):
    T = draw(st.integers(8, 60))
    return {"x": [rnd(draw(fl(-5, 5)), 3) for _ in range(T)], "L": draw(st.integers(2, 9)), "stride": draw(st.integers(1, 3)),
            "periodic": False}      # the mean of a periodic variable near its seam is not defined by the property


def check_runave(spec, ctx):
    prefix = os.path.join(ctx["workdir"], "ra%d" % os.getpid())
    path = prefix + ".z0.runave.traj"
    for f in (path, path + ".BAK"):
        if os.path.exists(f):
            os.unlink(f)
    lo, up = (-4.0, 4.0)
    cfg = cvz.zvar("z0", 1, lo, up, 0.5, periodic=spec["periodic"], extra={"runAve": "on", "runAveLength": str(spec["L"]),
                                                                           "runAveStride": str(spec["stride"])})
    L = ["natoms 2", "outprefix %s" % pct(prefix), "config <<END\n%s\nEND" % cfg]
    for x in spec["x"]:
        L += [cvz.pos_line_z([x], 2), "step"]
    L.append("post_run")
    case = "\n".join(L) + "\n"
    r = run_case(case)
    if r.crashed or r.of("config")[0]["rc"] != 0:
        return Outcome(False, msg="crash/rejected %s %s" % (r.of("config")[:1], r.stderr[-300:]), sig="gen_invalid", case_text=case)
    try:
        lines = [l.split() for l in open(path).read().splitlines() if l.strip() and not l.startswith("#")]
    except OSError:
        lines = []
    vals = [s["cv"][0]["x"][0] for s in r.of("step")]
    P = (up - lo) if spec["periodic"] else None
    # sampled values: steps (relative) that are multiples of the stride, the first step only initialises the analysis
    sampled = [(t, v) for t, v in enumerate(vals) if t > 0 and t % spec["stride"] == 0]
    Lw = spec["L"]
    expected = []
    for i in range(len(sampled)):
        if i + 1 >= Lw:
            window = [v for _, v in sampled[i + 1 - Lw:i + 1]]
            if P:
                ref = window[-1]
                window = [ref + ((w - ref) - P * math.floor((w - ref) / P + 0.5)) for w in window]
            mean = sum(window) / Lw
            var = sum((w - mean) ** 2 for w in window) / (Lw - 1)
            expected.append((sampled[i][0], mean, math.sqrt(var)))
    if len(lines) != len(expected):
        return Outcome(False, msg="%d running-average lines, expected %d (window %d, stride %d, %d steps)" % (len(lines), len(expected), Lw, spec["stride"], len(vals)),
                       sig="runave_lines", case_text=case)
    for ln, (t, mean, sd) in zip(lines, expected):
        gm, gs = float(ln[1]), float(ln[2])
        if P:
            d = gm - mean
            d -= P * math.floor(d / P + 0.5)
        else:
            d = gm - mean
        if int(ln[0]) != t or abs(d) > 1e-12 * max(1.0, abs(mean)) or abs(gs - sd) > 1e-11 * max(1.0, sd):
            return Outcome(False, msg="running average at step %s: file has mean %r stddev %r; the last %d sampled values give mean %r stddev %r (step %d)" %
                           (ln[0], gm, gs, Lw, mean, sd, t), sig="runave_value", case_text=case)
    return Outcome(True, nontrivial=len(expected) >= Lw, cls=("L%d" % Lw, "s%d" % spec["stride"], "per" if P else ""), strata=["per"] if P else ["nonper"],
                   case_text=case)


# ------------------------------------------------------------------------------------------ correlation function

@st.composite
def spec_acf(draw, tier):
    T = draw(st.integers(10, 50))
    vec = draw(st.integers(0, 2)) == 0
    sp = {"x": [rnd(draw(fl(-3, 3)), 3) for _ in range(T)], "L": draw(st.integers(1, 6)), "stride": draw(st.integers(1, 3)),
          "normalize": draw(st.booleans()), "vec": vec, "p2": vec and draw(st.booleans())}
    if vec:
        # a 3-vector variable (position of one atom): lengths vary from frame to frame
        sp["xyz"] = [[rnd(draw(fl(-3, 3)), 3), rnd(draw(fl(-3, 3)), 3), rnd(draw(fl(0.5, 3)), 3)] for _ in range(T)]
    return sp


def check_acf(spec, ctx):
    prefix = os.path.join(ctx["workdir"], "cf%d" % os.getpid())
    path = prefix + ".z0.corrfunc.dat"
    for f in (path, path + ".BAK"):
        if os.path.exists(f):
            os.unlink(f)
    if spec.get("vec"):
        cfg = ("colvar {\n  name z0\n  corrFunc on\n  corrFuncType %s\n  corrFuncLength %d\n  corrFuncStride %d\n  corrFuncNormalize %s\n"
               "  distanceVec {\n    group1 { dummyAtom (0, 0, 0) }\n    group2 { atomNumbers 1 }\n  }\n}" % (
                   "coordinate_p2" if spec["p2"] else "coordinate", spec["L"], spec["stride"], "on" if spec["normalize"] else "off"))
    else:
        cfg = cvz.zvar("z0", 1, -20, 20, 0.5, extra={"corrFunc": "on", "corrFuncType": "coordinate", "corrFuncLength": str(spec["L"]),
                                                    "corrFuncStride": str(spec["stride"]), "corrFuncNormalize": "on" if spec["normalize"] else "off"})
    # correlation functions are written together with the periodic restart files: make the last step one of them
    rf = ((len(spec["x"]) - 1) // spec["stride"]) * spec["stride"]
    cfg = "colvarsRestartFrequency %d\n" % rf + cfg
    L = ["natoms 2", "outprefix %s" % pct(prefix), "config <<END\n%s\nEND" % cfg]
    for t, x in enumerate(spec["x"][:rf + 1]):
        if spec.get("vec"):
            L += ["pos " + " ".join(fnum(c) for c in spec["xyz"][t] + [0.5, 0.5, 0.5]), "step"]
        else:
            L += [cvz.pos_line_z([x], 2), "step"]
    case = "\n".join(L) + "\n"
    r = run_case(case)
    if r.crashed or r.of("config")[0]["rc"] != 0:
        return Outcome(False, msg="crash/rejected %s %s" % (r.of("config")[:1], r.stderr[-300:]), sig="gen_invalid", case_text=case)
    vals = [s["cv"][0]["x"] for s in r.of("step")][1:]      # the first step initialises the analysis

    def prod(a, b):
        dot = sum(p * q for p, q in zip(a, b))
        if spec.get("p2"):
            c = dot / math.sqrt(sum(p * p for p in a) * sum(q * q for q in b))
            return 1.5 * c * c - 0.5
        return dot
    s_, Lc = spec["stride"], spec["L"]
    # origins: samples for which all Lc lags (multiples of the stride) are available
    acc = [0.0] * (Lc + 1)
    n = 0
    for t in range(len(vals)):
        if t - Lc * s_ < 0:
            continue
        n += 1
        for k in range(Lc + 1):
            acc[k] += prod(vals[t], vals[t - k * s_])
    try:
        lines = [l.split() for l in open(path).read().splitlines() if l.strip() and not l.startswith("#")]
    except OSError:
        lines = []
    if n == 0:
        if lines:
            return Outcome(False, msg="correlation function written although no complete row of lags was available", sig="acf_lines", case_text=case)
        return Outcome(True, strata=["empty"])
    if len(lines) != Lc + 1:
        return Outcome(False, msg="%d correlation-function lines, expected %d" % (len(lines), Lc + 1), sig="acf_lines", case_text=case)
    if spec["normalize"] and acc[0] == 0:
        return Outcome(discard=True)       # the normalised function of an identically zero series is not defined
    for k, ln in enumerate(lines):
        exp = acc[k] / n
        if spec["normalize"]:
            exp = acc[k] / acc[0]
        got = float(ln[1])
        if int(ln[0]) != k * s_ or not (abs(got - exp) <= 1e-11 * max(1.0, abs(exp))):
            return Outcome(False, msg="C(%s): file has %r; mean lagged product over the %d available origins %sis %r" %
                           (ln[0], got, n, "normalised by C(0) " if spec["normalize"] else "", exp), sig="acf_value", case_text=case)
    kindv = "p2vec" if spec.get("p2") else ("vec" if spec.get("vec") else "scalar")
    return Outcome(True, nontrivial=n >= 2, cls=("L%d" % Lc, "s%d" % s_, "norm" if spec["normalize"] else "raw", kindv),
                   strata=["norm" if spec["normalize"] else "raw", "acf:" + kindv], case_text=case)


def view(spec):
    return {k: (v if k not in ("traj", "fsys", "x") else v[:3]) for k, v in spec.items()}


PARTS = {
    "traj": {"strategy": spec_traj, "check": check_traj, "examples": {"quick": 6000, "thorough": 20000}, "sample": view},
    "runave": {"strategy": spec_runave, "check": check_runave, "examples": {"quick": 4000, "thorough": 10000}, "sample": view},
    "corrfunc": {"strategy": spec_acf, "check": check_acf, "examples": {"quick": 4000, "thorough": 10000}, "sample": view},
}

REQUIRED_STRATA = {"all": ["corrfunc:acf:vec", "corrfunc:acf:p2vec", "corrfunc:acf:scalar", "traj:sleeping_variable"]}
