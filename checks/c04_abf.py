"""C04: ABF stores the mean force per bin and applies its ramped negative (model-based, both force-timing conventions)."""
import math
from hypothesis import strategies as st
from lib import cvz
from lib.gen import fl, rnd, fmt
from lib.core import Outcome, run_case, fnum

ID = "C04"
LEVEL = "exploration"
RULE = ("Hypothesis generates 1-3 controlled variables (xi = z of one atom, total force = F_z), grids, histories of values "
        "(inside bins, outside on both sides, leaving and re-entering) and of system forces, force-timing convention "
        "(same step / one step late including Colvars' own forces), fullSamples/minSamples, maxForce, applyBias, updateBias, "
        "periodic 1-D variables, an additional harmonic bias on the same variable with/without subtractAppliedForce, "
        "a run boundary (repeated step). Oracle: Python model of the estimator co-evaluated on the same history: applied "
        "force compared at every step (rel 1e-10), samples (exact) and gradient (rel 1e-10) arrays of the saved state. "
        "Non-trivial: >=1 bin with >=2 samples, >=1 step outside the grid, ramp strictly inside (0,1) at some step.")
ASSUMPTIONS = ["distanceZ of a single atom has no Jacobian term (C07 covers Jacobian forces)"]


@st.composite
def spec_abf(draw, tier):
    nvar = draw(st.sampled_from([1, 1, 1, 2, 2, 3]))
    grids = [draw(cvz.grid_def(3, 6 if nvar < 3 else 4)) for _ in range(nvar)]
    periodic = [draw(st.integers(0, 3)) == 0 for _ in range(nvar)]
    tf = draw(st.sampled_from([1, 2]))
    full = draw(st.integers(0, 6))
    mins = draw(st.integers(0, full - 1)) if (full > 1 and draw(st.booleans())) else None
    T = draw(st.integers(6, 40))
    steps = []
    # a walk that tends to stay in / return to the same bins so that counts build up
    cur = [draw(cvz.value_in_grid(g)) for g in grids]
    for t in range(T):
        for i, g in enumerate(grids):
            mv = draw(st.integers(0, 5))
            if mv == 0:
                cur[i] = draw(cvz.value_in_grid(g))
            elif mv == 1:
                cur[i] = cur[i] + draw(st.sampled_from([-1, 1])) * g["width"]
            elif mv == 2:
                # jiggle inside the current bin
                b = math.floor((cur[i] - g["lower"]) / g["width"])
                cur[i] = g["lower"] + (b + rnd(draw(fl(0.06, 0.94)), 3)) * g["width"]
        steps.append({"x": list(cur), "f": [rnd(draw(fl(-5, 5)), 3) for _ in range(nvar)]})
    spec = {"nvar": nvar, "grids": grids, "periodic": periodic, "tf": tf, "full": full, "min": mins, "steps": steps,
            "apply": draw(st.integers(0, 7)) != 0, "update": draw(st.integers(0, 9)) != 0,
            "maxforce": [rnd(draw(fl(0.2, 4.0)), 2) for _ in range(nvar)] if draw(st.integers(0, 3)) == 0 else None,
            "harm": None, "subtract": False, "newrun": None, "szd": False}
    if draw(st.integers(0, 2)) == 0:
        spec["harm"] = {"k": rnd(draw(fl(0.2, 6.0)), 2), "c": rnd(grids[0]["lower"] + draw(fl(0, 1)) * grids[0]["n"] * grids[0]["width"], 2)}
        spec["subtract"] = draw(st.booleans())
        if not periodic[0] and draw(st.booleans()):
            # walls inside the grid (their force reaches the variable by another route than that of a plain restraint when an
            # extended Lagrangian is involved; the applied-force bookkeeping must cover both)
            g0 = grids[0]
            lo = rnd(g0["lower"] + draw(fl(0.1, 0.45)) * g0["n"] * g0["width"], 2)
            spec["harm"]["walls"] = [lo, rnd(lo + draw(fl(0.1, 0.4)) * g0["n"] * g0["width"], 2)]
    if draw(st.integers(0, 2)) == 0:
        spec["newrun"] = draw(st.integers(1, T - 1))
    if tf == 1 and draw(st.integers(0, 3)) == 0:
        spec["szd"] = True
    return spec


def build_case(spec):
    nv = spec["nvar"]
    natoms = nv + 1
    cfg = []
    for i, g in enumerate(spec["grids"]):
        extra = {}
        if spec["subtract"] and i == 0:
            extra["subtractAppliedForce"] = "on"
        cfg.append(cvz.zvar("z%d" % i, i + 1, g["lower"], g["upper"], g["width"], periodic=spec["periodic"][i], extra=extra))
    abf = ["abf {", "  name abf", "  colvars " + " ".join("z%d" % i for i in range(nv)), "  fullSamples %d" % spec["full"],
           "  integrate off"]
    if spec["min"] is not None:
        abf.append("  minSamples %d" % spec["min"])
    if not spec["apply"]:
        abf.append("  applyBias off")
    if not spec["update"]:
        abf.append("  updateBias off")
    if spec["maxforce"]:
        abf.append("  maxForce " + " ".join(fmt(m) for m in spec["maxforce"]))
    if spec["szd"]:
        abf.append("  stepZeroData on")
    abf.append("}")
    cfg.append("\n".join(abf))
    if spec["harm"] and spec["harm"].get("walls"):
        cfg.append("harmonicWalls {\n  name harm\n  colvars z0\n  lowerWalls %s\n  upperWalls %s\n  forceConstant %s\n}" %
                   (fmt(spec["harm"]["walls"][0]), fmt(spec["harm"]["walls"][1]), fmt(spec["harm"]["k"])))
    elif spec["harm"]:
        cfg.append("harmonic {\n  name harm\n  colvars z0\n  centers %s\n  forceConstant %s\n}" %
                   (fmt(spec["harm"]["c"]), fmt(spec["harm"]["k"])))
    L = cvz.header(natoms, spec["tf"])
    L.append("config <<END\n%s\nEND" % "\n".join(cfg))
    for t, s in enumerate(spec["steps"]):
        if spec["newrun"] == t:
            L.append("newrun")
            L.append("step")   # repeated evaluation of the previous step number with the previous positions and forces
        L.append(cvz.pos_line_z(s["x"], natoms))
        L.append(cvz.fsys_line_z(s["f"], natoms))
        L.append("step")
    L.append("savestr")
    return "\n".join(L) + "\n"


def evaluations(spec):
    """the sequence of module evaluations: (step number, continuing, x, fsys)"""
    ev = []
    it = 0
    for t, s in enumerate(spec["steps"]):
        if spec["newrun"] == t:
            prev = ev[-1]
            ev.append({"it": prev["it"], "cont": True, "x": prev["x"], "f": prev["f"]})
        ev.append({"it": it, "cont": False, "x": s["x"], "f": s["f"]})
        it += 1
    return ev


def model(spec):
    nv = spec["nvar"]
    grids = spec["grids"]
    full = spec["full"]
    if full <= 1:
        full_s, min_s = 1, 0
    else:
        full_s = full
        min_s = spec["min"] if spec["min"] is not None else full // 2
    count, total = {}, {}
    S = spec["tf"] == 1
    prev = None            # previous evaluation: bins, abf force, total applied force per var, fsys
    applied = []
    info = {"outside": 0, "ramp_mid": 0}
    w0 = grids[0]["width"]
    for e in evaluations(spec):
        x = e["x"]
        bins = tuple(cvz.bin_of(g, xi, p) for g, xi, p in zip(grids, x, spec["periodic"]))
        valid = all(b is not None for b in bins)
        if not valid:
            info["outside"] += 1
        rel = e["it"]       # the run starts at step 0: relative = absolute
        can_acc = ((rel > 0) and not e["cont"]) or spec["szd"]
        # ---- part I: accumulate
        if can_acc and spec["update"]:
            if S:
                if valid:
                    count[bins] = count.get(bins, 0) + 1
                    tot = total.setdefault(bins, [0.0] * nv)
                    for i in range(nv):
                        tot[i] += e["f"][i]
            elif rel > 0 and prev is not None:
                if prev["valid"]:
                    b = prev["bins"]
                    count[b] = count.get(b, 0) + 1
                    tot = total.setdefault(b, [0.0] * nv)
                    for i in range(nv):
                        ft = prev["f"][i] + prev["applied_total"][i]
                        if spec["subtract"] and i == 0:
                            sample = ft - prev["applied_total"][i] if ft != 0.0 else ft
                        else:
                            sample = ft - prev["abf"][i]
                        tot[i] += sample
        # ---- part II: force
        abf = [0.0] * nv
        if spec["apply"] and valid:
            w = count.get(bins, 0)
            if w <= min_s:
                fact = 0.0
            elif w < full_s:
                fact = (w - min_s) / (w * float(full_s - min_s))
                info["ramp_mid"] += 1
            else:
                fact = 1.0 / w
            tot = total.get(bins, [0.0] * nv)
            abf = [-fact * tot[i] for i in range(nv)]
            if nv == 1 and spec["periodic"][0]:
                n = grids[0]["n"]
                avg = sum((-total[(b,)][0] / count[(b,)]) for b in range(n) if count.get((b,), 0) > 0) / n
                abf[0] -= avg
            if spec["maxforce"]:
                for i in range(nv):
                    m = spec["maxforce"][i]
                    if abf[i] * abf[i] > m * m:
                        abf[i] = m if abf[i] > 0 else -m
        tot_applied = list(abf)
        if spec["harm"] and spec["harm"].get("walls"):
            lo, up = spec["harm"]["walls"]
            d = (x[0] - lo) if x[0] < lo else ((x[0] - up) if x[0] > up else 0.0)
            tot_applied[0] += -spec["harm"]["k"] / (w0 * w0) * d
            if d != 0.0:
                info["wall_active"] = info.get("wall_active", 0) + 1
        elif spec["harm"]:
            d = x[0] - spec["harm"]["c"]
            if spec["periodic"][0]:
                P = grids[0]["n"] * grids[0]["width"]
                d = d - P * math.floor(d / P + 0.5)
            tot_applied[0] += -spec["harm"]["k"] / (w0 * w0) * d
        applied.append(tot_applied)
        prev = {"bins": bins, "valid": valid, "abf": abf, "applied_total": tot_applied, "f": e["f"]}
    return applied, count, total, info


def check_abf(spec, ctx):
    case = build_case(spec)
    r = run_case(case)
    if r.crashed:
        return Outcome(False, msg="crash rc=%s %s" % (r.returncode, r.stderr[-600:]), sig="crash", case_text=case)
    c = r.of("config")[0]
    if c["rc"] != 0:
        return Outcome(False, msg="generated configuration rejected: %s" % c["errs"], sig="gen_invalid", case_text=case)
    steps = r.of("step")
    applied, count, total, info = model(spec)
    if len(steps) != len(applied):
        return Outcome(False, msg="expected %d evaluations, trace has %d" % (len(applied), len(steps)), sig="harness", case_text=case)
    nv = spec["nvar"]
    for k, (s, a) in enumerate(zip(steps, applied)):
        if s["errbits"]:
            return Outcome(False, msg="error at evaluation %d: %s" % (k, s["errs"]), sig="step_error", case_text=case)
        for i in range(nv):
            got = s["cv"][i]["f"][0]
            if abs(got - a[i]) > 1e-10 * max(1.0, abs(a[i])):
                return Outcome(False, msg="evaluation %d (step %d) variable %d: applied force %r, model %r" %
                               (k, s["it"], i, got, a[i]), sig="applied_force", case_text=case)
    st_ = r.of("savestr")[0]["state"]
    body = cvz.find_block(st_, "abf")
    samples = cvz.named_array(body, "samples")
    grad = cvz.named_array(body, "gradient")
    shape = [g["n"] for g in spec["grids"]]
    ntot = 1
    for n in shape:
        ntot *= n
    if samples is None or grad is None or len(samples) != ntot or len(grad) != ntot * nv:
        return Outcome(False, msg="cannot parse samples/gradient arrays (%s, %s)" %
                       (None if samples is None else len(samples), None if grad is None else len(grad)), sig="state_format",
                       case_text=case)
    idx = 0
    import itertools
    maxcount = 0
    for b in itertools.product(*[range(n) for n in shape]):
        cnt = count.get(b, 0)
        maxcount = max(maxcount, cnt)
        if int(samples[idx]) != cnt:
            return Outcome(False, msg="bin %s: stored count %r, model %d" % (b, samples[idx], cnt), sig="count", case_text=case)
        for i in range(nv):
            exp = (-total[b][i] / cnt) if cnt > 0 else 0.0
            got = grad[idx * nv + i]
            if abs(got - exp) > 1e-9 * max(1.0, abs(exp)):
                return Outcome(False, msg="bin %s variable %d: stored gradient %r, minus mean sample %r" % (b, i, got, exp),
                               sig="gradient", case_text=case)
        idx += 1
    nontrivial = maxcount >= 2 and info["outside"] >= 1 and info["ramp_mid"] >= 1
    cls = ("nv%d" % nv, "S" if spec["tf"] == 1 else "L", "per" if any(spec["periodic"]) else "nonper",
           "harm" if spec["harm"] else "", "sub" if spec["subtract"] else "", "newrun" if spec["newrun"] is not None else "",
           "cap" if spec["maxforce"] else "", "noapply" if not spec["apply"] else "", "noupdate" if not spec["update"] else "")
    strata = [c for c in cls if c]
    if maxcount >= 2:
        strata.append("multi_sample_bin")
    if info["ramp_mid"]:
        strata.append("ramp_mid")
    if info["outside"]:
        strata.append("outside")
    if info.get("wall_active") and spec["subtract"] and spec["tf"] != 1:
        strata.append("walls_sub_late")
    return Outcome(True, nontrivial=nontrivial, cls=cls, strata=strata, case_text=case)


def sample_view(spec):
    return {k: spec[k] for k in ("nvar", "grids", "periodic", "tf", "full", "min", "maxforce", "harm", "subtract", "newrun")} | \
        {"steps": spec["steps"][:4], "nsteps": len(spec["steps"])}


PARTS = {"abf": {"strategy": spec_abf, "check": check_abf, "examples": {"quick": 15000, "thorough": 60000}, "sample": sample_view}}
REQUIRED_STRATA = {"all": ["abf:walls_sub_late", "abf:S", "abf:L", "abf:per", "abf:harm", "abf:sub", "abf:newrun", "abf:ramp_mid", "abf:outside",
                           "abf:multi_sample_bin", "abf:nv2", "abf:nv3"]}
