"""C18: distances, gradients and wrapping form a consistent metric (rapidcheck, direct API)."""
from lib import rcrun

ID = "C18"
LEVEL = "exploration"
RULE = ("rapidcheck generates pairs of on-manifold values of every type (scalar, 3-vector, unit vector, quaternion, generic "
        "vector; generic / nearly equal / equal / nearly antipodal or sign-flipped) and periodic scalar variables built "
        "through the real configuration path (dihedral, distanceZ with period+wrapAround, scripted function with "
        "period+wrapAround) with values shifted by whole periods; oracles: metric axioms, central-difference derivative "
        "along tangent directions, closed-form minimum-image difference, wrap interval. Non-trivial: values differ "
        "(d2>1e-12) / pair not identical; evaluations = property executions counted by the target.")
ASSUMPTIONS = ["gradient compared away from the cut locus (antipodal unit vectors, quaternions at 90 degrees, |diff| = P/2)"]
N = {"quick": 800000, "thorough": 8000000}
BUILD_TARGETS = ["rel"]


def runner(tier, seed):
    return rcrun.run_rc(ID, "metric", "rc_c18", tier, seed, N[tier] // 4,
                        ["metric.nontrivial", "grad.nontrivial", "interp.nontrivial", "periodic.nontrivial"])


PARTS = {"metric": {"runner": runner, "replay": rcrun.replay_rc}}
REQUIRED_STRATA = {"all": ["metric:periodic.straddle", "metric:periodic.wrapcenter_nonzero", "metric:metric.qflip",
                           "metric:periodic.kind2"]}
