"""C20: the scripting interface is total and agrees with the engine-side view."""
import math
import os
import re
from hypothesis import strategies as st
from lib import gen, biases, cvz, zoo, fuzzrun
from lib.gen import fl, rnd, fmt
from lib.core import Outcome, run_case, fnum, pct, BUILD
import c01_forces

ID = "C20"
LEVEL = "exploration"
RULE = ("(totality) libFuzzer (ASan+UBSan) decodes bytes into sequences of up to 24 script commands over the registered command "
        "table with well-formed and malformed arguments, interleaved with steps; afterwards a canonical variable must still give "
        "the right value.  (agreement) Hypothesis generates systems/variables/biases (the C01 generator) and controlled variables "
        "with a 1-D ABF; after every step the numbers returned by script queries (value, applied/total force, gradients, atom ids, "
        "bias energy, total energy, atomic applied forces, positions, masses, charges, total forces, step number, printframe, "
        "savetostring, ABF bin/bincount/binnum) are compared with the engine-side trace of the same step at the precision the "
        "result string carries (14 digits; 6 for energies); the atomic forces must equal sum_cv f_cv * gradient_cv.  "
        "(equivalence) script-driven actions vs the engine/configuration path: cv config/configfile vs read_config_string (bitwise "
        "traces), addforce inside the scripted-forces callback vs a linear bias (forces 1e-12), cv load/loadfromstring vs the "
        "input-prefix path (bitwise), cv save vs write_restart_file (same file), bias savetostring/loadfromstring vs an "
        "uninterrupted run (1e-9).  Non-trivial: >=1 step with a non-zero applied force and >=6 successful queries (agreement); "
        ">=1 history-dependent bias or non-zero force (equivalence).")
ASSUMPTIONS = ["a query's result is the internal number rounded to the digits the interface prints (14 significant digits for "
               "values and forces, the stream default of 6 for energies)"]
BUILD_TARGETS = ["rel", "asan"]
SECONDS = {"quick": 45, "thorough": 900}

FLOAT = re.compile(r"[-+]?(?:\d+\.?\d*(?:[eE][-+]?\d+)?|nan|inf)")


def floats(s):
    return [float(x) for x in FLOAT.findall(s)]


def close(a, b, rel):
    if math.isnan(a) and math.isnan(b):
        return True
    return abs(a - b) <= rel * max(abs(a), abs(b)) + 1e-300


def veq(a, b, rel):
    return len(a) == len(b) and all(close(x, y, rel) for x, y in zip(a, b))


def runner_totality(tier, seed):
    from c10_params import seed_corpus      # long deterministic inputs, so that the decoder does not run out of bytes after two commands
    return fuzzrun.campaign(ID, "totality", "fuzz_script", tier, seed, SECONDS[tier], max_len=512, corpus_dirs=[seed_corpus("seed_script")],
                            extra_args=["-len_control=0"])


# ------------------------------------------------------------------------------------------------------------
# agreement (rich variables)

@st.composite
def spec_agree(draw, tier):
    s = draw(c01_forces.spec_restraints(tier))
    s["shifts"] = None
    T = draw(st.integers(1, 3))
    n = s["sys"]["natoms"]
    s["jitter"] = [[[rnd(draw(fl(-0.05, 0.05)), 3) for _ in range(3)] for _ in range(n)] for _ in range(T)]
    return s


def q(*args):
    # like the Tcl front end, clear the error state before each command
    return "clear_error\nscript cv " + " ".join(pct(a) for a in args)


def check_agree(spec, ctx):
    sysd = spec["sys"]
    n = sysd["natoms"]
    head = gen.case_header(sysd, tf_mode=1)
    pos0 = [list(p) for p in sysd["pos"]]
    cfg1 = c01_forces.build_config(spec, None, ctx["workdir"], with_biases=False)
    r1 = run_case("\n".join(head + [gen.config_block(cfg1), gen.pos_line(pos0), "step"]) + "\n")
    if r1.crashed or r1.of("config")[0]["rc"] != 0 or not r1.of("step") or r1.of("step")[0]["errbits"]:
        return Outcome(False, msg="pass 1 failed: %s" % r1.stderr[-300:], sig="gen_invalid", case_text="")
    values = c01_forces.values_of(r1.of("step")[0])
    if any(not math.isfinite(x) for v in values for x in v):
        return Outcome(discard=True)
    cfg = c01_forces.build_config(spec, values, ctx["workdir"])
    L = head + [gen.config_block(cfg), gen.pos_line(pos0), "step"]
    names = [cv["name"] for cv in spec["cvs"]]
    bnames = [b["name"] for b in spec["biases"]]
    plan = []          # (kind, arg) in the order of the script records
    for nm in names:
        L.append(q("colvar", nm, "set", "collect_gradient", "1"))
        plan.append(("setgrad", nm))
    L.append("clear_error")
    positions = []
    for jit in spec["jitter"]:
        pos = [[pos0[a][k] + jit[a][k] for k in range(3)] for a in range(n)]
        positions.append(pos)
        L += [gen.pos_line(pos), "step"]
        for nm in names:
            for sub in ("value", "getappliedforce", "getgradients", "getatomids", "type"):
                L.append(q("colvar", nm, sub))
                plan.append(("cvatomids" if sub == "getatomids" else sub, nm))
        for bn in bnames:
            L.append(q("bias", bn, "energy"))
            plan.append(("benergy", bn))
        for sub in ("getenergy", "getatomappliedforces", "getatomids", "getatompositions", "getatommasses", "getatomcharges",
                    "getstepabsolute", "getnumactiveatoms", "printframe", "savetostring", "list", "getatomappliedforcesmax",
                    "getatomappliedforcesrms", "getatomappliedforcesmaxid"):
            L.append(q(sub))
            plan.append((sub, None))
        L.append("savestr")
        L.append("atoms")
    case = "\n".join(L) + "\n"
    r = run_case(case)
    if r.crashed:
        return Outcome(False, msg="crash: %s" % r.stderr[-500:], sig="crash", case_text=case)
    if r.of("config")[0]["rc"] != 0:
        return Outcome(False, msg="configuration rejected %s" % r.of("config")[0]["errs"], sig="gen_invalid", case_text=case)
    steps = r.of("step")[1:]
    scr = r.of("script")
    sav = r.of("savestr")
    atm = r.of("atoms")
    if len(scr) != len(plan):
        return Outcome(False, msg="number of script records %d != %d" % (len(scr), len(plan)), sig="harness", case_text=case)
    grad_ok = {}
    k = 0
    for rec, pl in zip(scr, plan):
        if rec["rc"] == 0 and rec["errbits"] != 0:
            return Outcome(False, msg="script command %s %s returned success although it raised an error: %s" % (pl[0], pl[1] or "", rec["errs"]),
                           sig="ok_with_error:" + pl[0], case_text=case)
    for nm in names:
        grad_ok[nm] = scr[k]["rc"] == 0
        k += 1
    per_step = (len(plan) - len(names)) // max(1, len(steps))
    nq = 0
    nforce = 0

    def bad(what, got, exp):
        return Outcome(False, msg="%s: script returned %r, the engine-side trace of the same step has %r" % (what, got, exp),
                       sig="agree:" + what.split()[0], case_text=case)
    for si, s in enumerate(steps):
        if s["errbits"]:
            return Outcome(False, msg="step error %s" % s["errs"], sig="step_error", case_text=case)
        cvrec = {c["name"]: c for c in s["cv"]}
        brec = {b["name"]: b for b in s["bias"]}
        ids = s["ids"]
        F = s["F"]
        fmax = max([abs(c) for f in F for c in f] + [0.0])
        if fmax > 1e-9:
            nforce += 1
        grads = {}
        gids = {}
        for j in range(per_step):
            kind, arg = plan[k]
            rec = scr[k]
            k += 1
            res = rec["result"]
            if kind in ("value", "getappliedforce"):
                if rec["rc"] != 0:
                    return bad("%s of %s (error %s)" % (kind, arg, rec["errs"]), res, "a result")
                exp = cvrec[arg]["x" if kind == "value" else "f"]
                if not veq(floats(res), exp, 1e-13):
                    return bad("%s of variable %s" % (kind, arg), res, exp)
                nq += 1
            elif kind == "getgradients":
                if grad_ok[arg] and rec["rc"] == 0:
                    grads[arg] = floats(res)
            elif kind == "cvatomids":
                if grad_ok[arg] and rec["rc"] == 0:
                    gids[arg] = [int(x) for x in res.split()]
            elif kind == "type":
                exp = {1: "scalar", 2: "3-vector", 3: "unit3vector", 4: "unit3vectorderiv", 5: "unitquaternion", 6: "unitquaternionderiv",
                       7: "vector"}.get(cvrec[arg]["type"])
                if rec["rc"] != 0 or (exp and res.strip() != exp and not res.strip().startswith(exp.split("-")[0][:4])):
                    pass   # type names are informative only; not asserted
            elif kind == "benergy":
                if rec["rc"] != 0 or not veq(floats(res), [brec[arg]["E"]], 1e-5):
                    return bad("energy of bias %s" % arg, res, brec[arg]["E"])
                nq += 1
            elif kind == "getenergy":
                if rec["rc"] != 0 or not veq(floats(res), [s["E"]], 1e-5):
                    return bad("getenergy", res, s["E"])
                nq += 1
            elif kind == "getatomappliedforces":
                if rec["rc"] != 0 or not veq(floats(res), [c for f in F for c in f], 1e-13):
                    return bad("getatomappliedforces", res, F)
                nq += 1
            elif kind == "getatomids":
                if rec["rc"] != 0 or [int(x) for x in res.split()] != ids:
                    return bad("getatomids", res, ids)
                nq += 1
            elif kind == "getatompositions":
                exp = [c for a in ids for c in positions[si][a]]
                if rec["rc"] != 0 or not veq(floats(res), exp, 1e-13):
                    return bad("getatompositions", res, exp)
                nq += 1
            elif kind == "getatommasses":
                exp = [sysd["masses"][a] for a in ids]
                if rec["rc"] != 0 or not veq(floats(res), exp, 1e-5):
                    return bad("getatommasses", res, exp)
                nq += 1
            elif kind == "getatomcharges":
                exp = [sysd["charges"][a] for a in ids]
                if rec["rc"] != 0 or not veq(floats(res), exp, 1e-5):
                    return bad("getatomcharges", res, exp)
                nq += 1
            elif kind == "getstepabsolute":
                if rec["rc"] != 0 or res.strip() != str(s["it"]):
                    return bad("getstepabsolute", res, s["it"])
                nq += 1
            elif kind == "getnumactiveatoms":
                if rec["rc"] != 0 or int(res) != atm[si]["nactive"]:
                    return bad("getnumactiveatoms", res, atm[si]["nactive"])
                nq += 1
            elif kind == "printframe":
                exp = [float(s["it"])] + [x for c in s["cv"] for x in c["x"]]
                got = floats(res)
                if rec["rc"] != 0 or not veq(got[:len(exp)], exp, 1e-13):
                    return bad("printframe (step, values...)", res, exp)
                nq += 1
            elif kind == "savetostring":
                if rec["rc"] != 0 or res != sav[si]["state"]:
                    return bad("savetostring vs write_restart_string", res[:300], sav[si]["state"][:300])
                nq += 1
            elif kind == "list":
                if rec["rc"] != 0 or res.split() != names:
                    return bad("list", res, names)
                nq += 1
            elif kind == "getatomappliedforcesmax":
                exp = max([math.sqrt(sum(c * c for c in f)) for f in F] + [0.0])
                if rec["rc"] != 0 or not veq(floats(res), [exp], 1e-5):
                    return bad("getatomappliedforcesmax", res, exp)
                nq += 1
            elif kind == "getatomappliedforcesrms":
                exp = math.sqrt(sum(c * c for f in F for c in f) / max(1, len(F)))
                if rec["rc"] != 0 or not veq(floats(res), [exp], 1e-5):
                    return bad("getatomappliedforcesrms", res, exp)
                nq += 1
            elif kind == "getatomappliedforcesmaxid":
                norms = [sum(c * c for c in f) for f in F]
                if rec["rc"] == 0 and norms and max(norms) > 0:
                    best = max(norms)
                    cand = [ids[i] for i, x in enumerate(norms) if x >= best * (1 - 1e-12)]
                    if int(res) not in cand:
                        return bad("getatomappliedforcesmaxid", res, cand)
                    nq += 1
        # atomic forces = sum over variables of applied force * gradient (when every forced variable reports gradients)
        forced = [c for c in s["cv"] if any(abs(x) > 0 for x in c["f"])]
        if forced and all(c["name"] in grads and c["name"] in gids and len(grads[c["name"]]) == 3 * len(gids[c["name"]]) for c in forced):
            Fexp = {a: [0.0, 0.0, 0.0] for a in ids}
            okids = True
            for c in forced:
                g = grads[c["name"]]
                for i, a in enumerate(gids[c["name"]]):
                    if a not in Fexp:
                        okids = False
                        continue
                    for d in range(3):
                        Fexp[a][d] += c["f"][0] * g[3 * i + d]
            if not okids:
                return bad("getatomids of a variable lists an atom the engine was never asked for", gids, ids)
            for slot, a in enumerate(ids):
                for d in range(3):
                    if abs(F[slot][d] - Fexp[a][d]) > 1e-9 * max(1.0, fmax):
                        return Outcome(False, msg="atom %d component %d: engine received force %r, sum of script applied force x "
                                       "script gradients gives %r" % (a, d, F[slot][d], Fexp[a][d]), sig="agree:gradients", case_text=case)
            nq += 1
    types = sorted(set(c["comp"]["type"] for cv in spec["cvs"] for c in cv["comps"]))
    cls = ("+".join(types), "+".join(sorted(b["type"] for b in spec["biases"])), "cell" if sysd.get("cell") else "")
    return Outcome(True, nontrivial=nforce >= 1 and nq >= 6, cls=cls, strata=["queries"] + (["gradients"] if any(grad_ok.values()) else []),
                   case_text=case)


# ------------------------------------------------------------------------------------------------------------
# agreement on a grid (ABF bins, total forces)

@st.composite
def spec_grid(draw, tier):
    g = draw(cvz.grid_def(4, 9))
    per = draw(st.integers(0, 4)) == 0
    T = draw(st.integers(2, 14))
    xs = [draw(cvz.value_in_grid(g, outside_p=5, edge=draw(st.integers(0, 3)) == 0)) for _ in range(T)]
    return {"grid": g, "periodic": per, "xs": xs, "fs": [rnd(draw(fl(-5, 5)), 2) for _ in range(T)], "full": draw(st.integers(1, 4)),
            "probe": draw(st.integers(-2, g["n"] + 1)), "tf": draw(st.sampled_from([1, 2]))}


def check_grid(spec, ctx):
    g = spec["grid"]
    nat = 2
    cfg = cvz.zvar("z0", 1, g["lower"], g["upper"], g["width"], periodic=spec["periodic"], extra={"outputTotalForce": "on"})
    cfg += "\nabf {\n  name a\n  colvars z0\n  fullSamples %d\n  integrate off\n}\n" % spec["full"]
    L = cvz.header(nat, spec["tf"]) + ["config <<END\n%s\nEND" % cfg]
    for x, f in zip(spec["xs"], spec["fs"]):
        L += [cvz.pos_line_z([x], nat), cvz.fsys_line_z([f], nat), "step", q("bias", "a", "bin"), q("bias", "a", "bincount"),
              q("bias", "a", "bincount", str(spec["probe"])), q("bias", "a", "binnum"), q("colvar", "z0", "gettotalforce"),
              q("getatomtotalforces"), "savestr", "clear_error"]
    case = "\n".join(L) + "\n"
    r = run_case(case)
    if r.crashed:
        return Outcome(False, msg="crash: %s" % r.stderr[-500:], sig="crash", case_text=case)
    if r.of("config")[0]["rc"] != 0:
        return Outcome(False, msg="configuration rejected %s" % r.of("config")[0]["errs"], sig="gen_invalid", case_text=case)
    steps, scr, sav = r.of("step"), r.of("script"), r.of("savestr")
    n = g["n"]
    nq = 0
    outside = 0
    for t, s in enumerate(steps):
        rec = scr[6 * t: 6 * t + 6]
        x = s["cv"][0]["x"][0]
        b = cvz.bin_of(g, spec["xs"][t], spec["periodic"])
        if b is None:
            outside += 1
            u = (spec["xs"][t] - g["lower"]) / g["width"]
            b = 0 if u < 0 else n - 1
        samples = cvz.named_array(cvz.find_block(sav[t]["state"], "abf"), "samples")

        def bad(what, got, exp):
            return Outcome(False, msg="step %d, value %r: %s: script returned %r, expected %r" % (t, x, what, got, exp),
                           sig="grid:" + what.split()[0], case_text=case)
        if rec[0]["rc"] != 0 or int(rec[0]["result"]) != b:
            return bad("bin", rec[0]["result"], b)
        if rec[1]["rc"] != 0 or int(rec[1]["result"]) != int(samples[b]):
            return bad("bincount (current bin)", rec[1]["result"], samples[b])
        p = spec["probe"]
        if 0 <= p < n:
            if rec[2]["rc"] != 0 or int(rec[2]["result"]) != int(samples[p]):
                return bad("bincount %d" % p, rec[2]["result"], samples[p])
        # an index outside the grid must give an error or -1, never a count read from outside the array (ASan part covers memory)
        if rec[3]["rc"] != 0 or int(rec[3]["result"]) != n:
            return bad("binnum", rec[3]["result"], n)
        if "ft" in s["cv"][0]:
            if rec[4]["rc"] != 0 or not veq(floats(rec[4]["result"]), s["cv"][0]["ft"], 1e-13):
                return bad("gettotalforce", rec[4]["result"], s["cv"][0]["ft"])
            nq += 1
        nq += 4
    return Outcome(True, nontrivial=nq >= 6 and len(steps) >= 2, cls=("per" if spec["periodic"] else "nonper", "tf%d" % spec["tf"], "outside" if outside else ""),
                   strata=["grid"] + (["outside"] if outside else []), case_text=case)


# ------------------------------------------------------------------------------------------------------------
# equivalence of script-driven and engine/config-driven actions

@st.composite
def spec_equiv(draw, tier):
    kind = draw(st.sampled_from(["config", "configfile", "addforce", "load", "loadstr", "save", "biasstate", "reset"]))
    vs = draw(zoo.variables(2, allow_ext=False, allow_periodic=(kind != "addforce")))
    tf = 1
    nb = draw(st.sampled_from([1, 2]))
    kinds = ["harmonic", "harmonic_moving", "walls", "linear", "abf", "meta", "meta_nogrid", "meta_wt", "abmd", "histogram"]
    if kind == "biasstate":
        kinds = ["abf", "meta", "meta_nogrid", "histogram"]
        nb = 1
    bs = [draw(zoo.bias(vs, i, kinds=kinds)) for i in range(nb)]
    if kind == "biasstate":
        bs[0]["nf"] = 1
        bs[0]["gf"] = 1
    T = draw(st.integers(3, 16))
    traj = draw(zoo.trajectory(vs, T + 1))
    n = len(vs)
    return {"kind": kind, "z": {"vars": vs, "biases": bs}, "T": T, "K": draw(st.integers(1, T - 1)), "traj": traj,
            "fsys": [[rnd(draw(fl(-4, 4)), 2) for _ in range(n)] for _ in range(T + 1)],
            "force": [draw(st.sampled_from([0.5, -1.25, 2.0, 0.0625, -3.5])) for _ in range(n)],
            "suffix": draw(st.booleans()), "split": draw(st.booleans())}


def traj_lines(spec, t0, t1, nat, extra_each=()):
    L = []
    for t in range(t0, t1 + 1):
        L.append(cvz.pos_line_z(spec["traj"][t], nat))
        L.append(cvz.fsys_line_z(spec["fsys"][t], nat))
        L.append("step")
        L.extend(extra_each)
    return L


def strip(rec):
    return {k: v for k, v in rec.items() if k not in ("errs",)}


def same_steps(a, b, what, case):
    if len(a) != len(b):
        return Outcome(False, msg="%s: %d vs %d step records" % (what, len(a), len(b)), sig="equiv:" + what, case_text=case)
    for x, y in zip(a, b):
        if strip(x) != strip(y):
            diff = [k for k in x if x.get(k) != y.get(k)]
            return Outcome(False, msg="%s: step %d differs in %s:\n script path %s\n other path  %s" % (
                what, x["it"], diff, {k: x[k] for k in diff}, {k: y.get(k) for k in diff}), sig="equiv:" + what, case_text=case)
    return None


def check_equiv(spec, ctx):
    z = spec["z"]
    kind = spec["kind"]
    nat = len(z["vars"]) + 1
    T, K = spec["T"], spec["K"]
    cfg = zoo.render(z)
    head = cvz.header(nat, 1, temperature=300.0)
    wd = ctx["workdir"]
    tag = "%d_%d" % (os.getpid(), ctx.get("n", 0))
    ctx["n"] = ctx.get("n", 0) + 1
    hist = any(b["kind"] in ("abf", "meta", "meta_nogrid", "meta_wt", "abmd", "histogram") for b in z["biases"])
    cls = (kind, "+".join(sorted(b["kind"] for b in z["biases"])))

    def run(lines):
        c = "\n".join(lines) + "\n"
        r = run_case(c)
        return c, r

    if kind in ("config", "configfile"):
        # (a) the whole configuration in one piece, (b) variables and biases in separate commands
        pieces = [cfg]
        if spec["split"]:
            pieces = [zoo.render_var(v) for v in z["vars"]] + [zoo.render_bias(b, z["vars"]) for b in z["biases"]]
        LA = list(head)
        LB = list(head)
        for i, pc in enumerate(pieces):
            LA.append("config <<END\n%s\nEND" % pc)
            if kind == "config":
                LB.append(q("config", pc + "\n"))
            else:
                path = os.path.join(wd, "c20_%s_%d.in" % (tag, i))
                open(path, "w").write(pc + "\n")
                LB.append(q("configfile", path))
        tl = traj_lines(spec, 0, T, nat)
        ca, ra = run(LA + tl + ["savestr"])
        cb, rb = run(LB + tl + ["savestr"])
        if ra.crashed or rb.crashed:
            return Outcome(False, msg="crash %s %s" % (ra.stderr[-300:], rb.stderr[-300:]), sig="crash", case_text=cb)
        if any(c["rc"] != 0 for c in ra.of("config")):
            return Outcome(False, msg="configuration rejected %s" % ra.of("config"), sig="gen_invalid", case_text=ca)
        if any(s["rc"] != 0 for s in rb.of("script")):
            return Outcome(False, msg="cv %s failed on a configuration that read_config_string accepts: %s" % (
                kind, [s for s in rb.of("script") if s["rc"] != 0][:1]), sig="equiv:config_rc", case_text=cb)
        o = same_steps(rb.of("step"), ra.of("step"), "cv_" + kind, cb)
        if o:
            return o
        if ra.of("savestr")[0]["state"] != rb.of("savestr")[0]["state"]:
            return Outcome(False, msg="final states differ between cv %s and read_config_string" % kind, sig="equiv:config_state", case_text=cb)
        nt = any(any(abs(c) > 0 for f in s["F"] for c in f) for s in ra.of("step"))
        return Outcome(True, nontrivial=nt, cls=cls, strata=[kind], case_text=cb)

    if kind == "addforce":
        vcfg = "\n".join(zoo.render_var(v) for v in z["vars"])
        LA = head + ["config <<END\n%s\n%s\nEND" % (vcfg, "\n".join(
            "linear {\n  name l%d\n  colvars %s\n  centers 0\n  forceConstant %s\n}" % (i, v["name"], fmt(-spec["force"][i] * v["grid"]["width"]))
            for i, v in enumerate(z["vars"])))]
        LB = list(head)
        for i, v in enumerate(z["vars"]):
            LB.append("force_script cv colvar %s addforce %s" % (v["name"], repr(spec["force"][i])))
        LB.append("config <<END\nscriptedColvarForces on\n%s\nEND" % vcfg)
        tl = traj_lines(spec, 0, T, nat)
        ca, ra = run(LA + tl)
        cb, rb = run(LB + tl)
        if ra.crashed or rb.crashed or ra.of("config")[0]["rc"] or rb.of("config")[0]["rc"]:
            return Outcome(False, msg="crash/rejected %s %s" % (ra.stderr[-300:], rb.stderr[-300:]), sig="gen_invalid", case_text=cb)
        for sa, sb in zip(ra.of("step"), rb.of("step")):
            if sb["errbits"] or sa["errbits"]:
                return Outcome(False, msg="step error %s %s" % (sa["errs"], sb["errs"]), sig="step_error", case_text=cb)
            for slot in range(len(sa["ids"])):
                for d in range(3):
                    if not close(sa["F"][slot][d], sb["F"][slot][d], 1e-12):
                        return Outcome(False, msg="step %d atom slot %d: addforce gives %r, the equivalent linear bias %r" % (
                            sa["it"], slot, sb["F"][slot], sa["F"][slot]), sig="equiv:addforce", case_text=cb)
            for ca_, cb_ in zip(sa["cv"], sb["cv"]):
                if not veq(ca_["f"], cb_["f"], 1e-12):
                    return Outcome(False, msg="step %d variable %s applied force: addforce %r vs linear %r" % (sa["it"], ca_["name"], cb_["f"], ca_["f"]),
                                   sig="equiv:addforce", case_text=cb)
        # a 3-vector variable (distanceVec between atom 1 and the spare atom): the script force, given as a list, must reach the two
        # atoms as -f and +f (the gradients of a distance vector are minus and plus the identity) on top of everything else
        fv = [spec["force"][0], -0.5 * spec["force"][-1], 0.25]
        vvcfg = "colvar {\n  name vv\n  distanceVec {\n    group1 { atomNumbers 1 }\n    group2 { atomNumbers %d }\n  }\n}" % nat
        LC = list(LB[:-1]) + ["force_script cv colvar vv addforce %s" % pct(" ".join(repr(c) for c in fv)),
                              "config <<END\nscriptedColvarForces on\n%s\n%s\nEND" % (vcfg, vvcfg)]
        LD = list(LB[:-1]) + ["config <<END\nscriptedColvarForces on\n%s\n%s\nEND" % (vcfg, vvcfg)]
        cc, rc_ = run(LC + tl)
        cd, rd = run(LD + tl)
        if rc_.crashed or rd.crashed or rc_.of("config")[0]["rc"] or rd.of("config")[0]["rc"]:
            return Outcome(False, msg="crash/rejected (vector variable) %s %s" % (rc_.stderr[-300:], rc_.of("config")[:1]), sig="gen_invalid", case_text=cc)
        for sc, sd in zip(rc_.of("step"), rd.of("step")):
            if sc["errbits"] or sd["errbits"]:
                return Outcome(False, msg="step %d: 'cv colvar vv addforce {%s}' inside the force callback: %s" % (sc["it"], " ".join(repr(c) for c in fv), sc["errs"] or sd["errs"]),
                               sig="equiv:addforce_vector", case_text=cc)
            fvv = [c for c in sc["cv"] if c["name"] == "vv"][0]["f"]
            if not veq(fvv, fv, 1e-12):
                return Outcome(False, msg="step %d: applied force of the vector variable %r after addforce %r" % (sc["it"], fvv, fv), sig="equiv:addforce_vector", case_text=cc)
            for slot, aid in enumerate(sc["ids"]):
                sign = -1.0 if aid == 0 else (1.0 if aid == nat - 1 else 0.0)
                for d in range(3):
                    if not close(sc["F"][slot][d] - sd["F"][slot][d], sign * fv[d], 1e-12):
                        return Outcome(False, msg="step %d atom %d: the vector script force %r changes the atomic force by %r, expected %r" % (
                            sc["it"], aid + 1, fv, sc["F"][slot][d] - sd["F"][slot][d], sign * fv[d]), sig="equiv:addforce_vector", case_text=cc)
        return Outcome(True, nontrivial=any(f != 0 for f in spec["force"]), cls=cls, strata=[kind, "addforce_vector"], case_text=cb)

    if kind in ("load", "loadstr", "save"):
        prefix = os.path.join(wd, "c20s_%s" % tag)
        L1 = head + ["outprefix " + pct(prefix), "config <<END\n%s\nEND" % cfg] + traj_lines(spec, 0, K, nat)
        if kind == "save":
            pa, pb = prefix + "_a", prefix + "_b"
            ca, ra = run(L1 + ["save " + pct(pa + ".colvars.state")])
            cb, rb = run(L1 + [q("save", pb + (".colvars.state" if spec["suffix"] else ""))])
            if ra.crashed or rb.crashed or ra.of("config")[0]["rc"]:
                return Outcome(False, msg="crash/rejected", sig="gen_invalid", case_text=cb)
            if rb.of("script")[0]["rc"] != 0:
                return Outcome(False, msg="cv save failed: %s" % rb.of("script")[0], sig="equiv:save_rc", case_text=cb)
            try:
                sa = open(pa + ".colvars.state").read()
                sb = open(pb + ".colvars.state").read()
            except OSError as e:
                return Outcome(False, msg="state file missing after cv save: %s" % e, sig="equiv:save_file", case_text=cb)
            finally:
                for f in os.listdir(wd):
                    if f.startswith("c20s_%s" % tag):
                        try:
                            os.unlink(os.path.join(wd, f))
                        except OSError:
                            pass
            if sa != sb:
                return Outcome(False, msg="cv save wrote a state different from write_restart_file at the same step", sig="equiv:save", case_text=cb)
            return Outcome(True, nontrivial=hist, cls=cls, strata=[kind], case_text=cb)
        c1, r1 = run(L1 + ["save " + pct(prefix + ".colvars.state"), "savestr"])
        if r1.crashed or r1.of("config")[0]["rc"] or r1.of("save")[0]["rc"]:
            return Outcome(False, msg="crash/rejected in segment 1 %s" % r1.stderr[-300:], sig="gen_invalid", case_text=c1)
        state = r1.of("savestr")[0]["state"]
        L2 = head + ["config <<END\n%s\nEND" % cfg]
        tl = traj_lines(spec, K, T, nat)
        if kind == "load":
            ca, ra = run(L2 + ["load " + pct(prefix)] + tl + ["savestr"])
            cb, rb = run(L2 + [q("load", prefix + (".colvars.state" if spec["suffix"] else ""))] + tl + ["savestr"])
        else:
            ca, ra = run(L2 + ["loadstr " + pct(state)] + tl + ["savestr"])
            cb, rb = run(L2 + [q("loadfromstring", state)] + tl + ["savestr"])
        for f in os.listdir(wd):
            if f.startswith("c20s_%s" % tag):
                try:
                    os.unlink(os.path.join(wd, f))
                except OSError:
                    pass
        if ra.crashed or rb.crashed:
            return Outcome(False, msg="crash %s %s" % (ra.stderr[-300:], rb.stderr[-300:]), sig="crash", case_text=cb)
        if ra.of("load")[0]["rc"] != 0:
            return Outcome(False, msg="engine-path load failed %s" % ra.of("load")[0], sig="gen_invalid", case_text=ca)
        if rb.of("script")[0]["rc"] != 0:
            return Outcome(False, msg="script load failed where the engine path succeeds: %s" % rb.of("script")[0], sig="equiv:load_rc", case_text=cb)
        o = same_steps(rb.of("step"), ra.of("step"), "cv_" + kind, cb)
        if o:
            return o
        if ra.of("savestr")[0]["state"] != rb.of("savestr")[0]["state"]:
            return Outcome(False, msg="final states differ between script load and engine-path load", sig="equiv:load_state", case_text=cb)
        return Outcome(True, nontrivial=hist, cls=cls, strata=[kind], case_text=cb)

    if kind == "reset":
        # 'cv reset' followed by the same configuration is a fresh module: default object names, loading of an earlier state and
        # the following steps are those of a process that never held the first configuration
        import re as _re
        cfg_unnamed = _re.sub(r"\n  name b\d+", "", cfg)         # biases get their default names (<type><n>)
        tl1 = traj_lines(spec, 0, K, nat)
        tl2 = traj_lines(spec, K, T, nat)
        c1, r1 = run(head + ["config <<END\n%s\nEND" % cfg_unnamed] + tl1 + ["savestr"])
        if r1.crashed or r1.of("config")[0]["rc"]:
            return Outcome(False, msg="crash/rejected %s" % r1.of("config")[:1], sig="gen_invalid", case_text=c1)
        state = r1.of("savestr")[0]["state"]
        ca, ra = run(head + ["config <<END\n%s\nEND" % cfg_unnamed, "loadstr " + pct(state)] + tl2 + [q("list", "biases"), "savestr"])
        cb, rb = run(head + ["config <<END\n%s\nEND" % cfg_unnamed] + tl1 + [q("reset"), "setstep 0", "config <<END\n%s\nEND" % cfg_unnamed,
                             "loadstr " + pct(state)] + tl2 + [q("list", "biases"), "savestr"])
        if ra.crashed or rb.crashed:
            return Outcome(False, msg="crash %s %s" % (ra.stderr[-300:], rb.stderr[-300:]), sig="crash", case_text=cb)
        if ra.of("load")[0]["rc"] != 0:
            return Outcome(False, msg="load failed in the fresh process %s" % ra.of("load")[0], sig="gen_invalid", case_text=ca)
        if rb.of("load")[0]["rc"] != 0 or rb.of("load")[0]["errbits"]:
            return Outcome(False, msg="after 'cv reset' and the same configuration, the state of the first run is rejected: %s" % rb.of("load")[0]["errs"],
                           sig="equiv:reset_load", case_text=cb)
        if ra.of("script")[-1]["result"] != rb.of("script")[-1]["result"]:
            return Outcome(False, msg="bias names after 'cv reset' + configuration are %r, in a fresh module %r" % (
                rb.of("script")[-1]["result"], ra.of("script")[-1]["result"]), sig="equiv:reset_names", case_text=cb)
        nb_ = len(tl2) // 3
        o = same_steps(rb.of("step")[-nb_:], ra.of("step")[-nb_:], "cv_reset", cb)
        if o:
            return o
        if ra.of("savestr")[-1]["state"] != rb.of("savestr")[-1]["state"]:
            return Outcome(False, msg="final states differ between 'cv reset' + configuration + load and a fresh module", sig="equiv:reset_state", case_text=cb)
        return Outcome(True, nontrivial=hist, cls=cls, strata=[kind], case_text=cb)

    if kind == "biasstate":
        b = z["biases"][0]
        tl_all = traj_lines(spec, 0, T, nat)
        ca, ra = run(head + ["config <<END\n%s\nEND" % cfg] + tl_all)
        c1, r1 = run(head + ["config <<END\n%s\nEND" % cfg] + traj_lines(spec, 0, K, nat) + [q("bias", b["name"], "savetostring")])
        if ra.crashed or r1.crashed or ra.of("config")[0]["rc"]:
            return Outcome(False, msg="crash/rejected", sig="gen_invalid", case_text=c1)
        if r1.of("script")[0]["rc"] != 0:
            return Outcome(False, msg="bias savetostring failed %s" % r1.of("script")[0], sig="equiv:biassave_rc", case_text=c1)
        st_ = r1.of("script")[0]["result"]
        cb, rb = run(head + ["config <<END\n%s\nEND" % cfg, "setstep %d" % K, q("bias", b["name"], "loadfromstring", st_)] +
                     traj_lines(spec, K, T, nat))
        if rb.crashed:
            return Outcome(False, msg="crash %s" % rb.stderr[-300:], sig="crash", case_text=cb)
        if rb.of("script")[0]["rc"] != 0:
            return Outcome(False, msg="bias loadfromstring rejects what bias savetostring wrote: %s" % rb.of("script")[0],
                           sig="equiv:biasload_rc", case_text=cb)
        sa = [s for s in ra.of("step") if s["it"] > K]
        sb = [s for s in rb.of("step") if s["it"] > K]   # the resumed run repeats step K as its step 0, as engines do
        if b["kind"] == "abf":
            # the first step after loading has no previous total force (same-step convention: available at once)
            pass
        if len(sa) != len(sb):
            return Outcome(False, msg="step counts differ", sig="harness", case_text=cb)
        for x, y in zip(sa, sb):
            if x["it"] != y["it"]:
                return Outcome(False, msg="step numbers differ %d %d" % (x["it"], y["it"]), sig="harness", case_text=cb)
            if not close(x["E"], y["E"], 1e-9) and abs(x["E"] - y["E"]) > 1e-9:
                return Outcome(False, msg="step %d: energy %r after bias loadfromstring vs %r uninterrupted" % (x["it"], y["E"], x["E"]),
                               sig="equiv:biasstate", case_text=cb)
            for fa, fb_ in zip(x["F"], y["F"]):
                for d in range(3):
                    if abs(fa[d] - fb_[d]) > 1e-9 * max(1.0, abs(fa[d])):
                        return Outcome(False, msg="step %d: force %r after bias loadfromstring vs %r uninterrupted" % (x["it"], fb_, fa),
                                       sig="equiv:biasstate", case_text=cb)
        return Outcome(True, nontrivial=True, cls=cls, strata=[kind], case_text=cb)
    return Outcome(discard=True)


def view(spec):
    d = {k: v for k, v in spec.items() if k not in ("traj", "fsys", "jitter", "sys")}
    return d


REQUIRED_STRATA = {"all": ["agreement:queries", "agreement:gradients", "grid:grid", "grid:outside"] +
                   ["equivalence:" + k for k in ("config", "configfile", "addforce", "addforce_vector", "load", "loadstr", "save", "biasstate", "reset")]}

PARTS = {
    "totality": {"runner": runner_totality, "replay": fuzzrun.replay_fuzz},
    "agreement": {"strategy": spec_agree, "check": check_agree, "examples": {"quick": 1000, "thorough": 12000}, "sample": view},
    "grid": {"strategy": spec_grid, "check": check_grid, "examples": {"quick": 1000, "thorough": 12000}, "sample": view},
    "equivalence": {"strategy": spec_equiv, "check": check_equiv, "examples": {"quick": 1000, "thorough": 12000}, "sample": view},
}
