"""C14, part czar: shared eABF.  The z-histogram and z-gradient that replica 0 gathers from all walkers (replica_share_CZAR) hold
every walker's samples exactly once."""
import os
import re
import shutil
from hypothesis import strategies as st
from lib import cvz, walkers
from lib.gen import fl, rnd
from lib.core import Outcome, pct


@st.composite
def spec_czar(draw, tier):
    W = draw(st.integers(2, 4))
    F = draw(st.integers(1, 4))                 # sharedFreq
    O = F * draw(st.integers(1, 3))             # outputFreq (a multiple of sharedFreq): the CZAR grids are gathered whenever the output files are written
    T = draw(st.integers(3, 14))
    nb = draw(st.integers(3, 6))
    zs = [[draw(st.integers(-1, nb)) for _ in range(T + 1)] for _ in range(W)]      # bin of the actual variable; -1 / nb are outside
    off = [[rnd(draw(fl(-0.2, 0.2)), 3) for _ in range(T + 1)] for _ in range(W)]   # place inside the bin
    sp = {"W": W, "F": F, "O": O, "T": T, "nb": nb, "zs": zs, "off": off, "integrate": draw(st.booleans()),
          "full": draw(st.integers(1, 3)), "restart": draw(st.sampled_from([None, None, "all", "some"])),
          "order": [draw(st.permutations(list(range(W)))) for _ in range(T + 2)], "binary": draw(st.booleans())}
    if sp["restart"]:
        sp["rk"] = draw(st.integers(1, T - 1))
        sp["rws"] = sorted(draw(st.sets(st.integers(0, W - 1), min_size=1, max_size=W))) if sp["restart"] == "some" else list(range(W))
    return sp


def czar_cfg(sp):
    nb = sp["nb"]
    ext = {"extendedLagrangian": "on", "extendedFluctuation": "0.2", "extendedTimeConstant": "40.0"}
    return (cvz.zvar("z0", 1, 0.0, 0.5 * nb, 0.5, extra=ext) +
            "\nabf {\n  name a\n  colvars z0\n  fullSamples %d\n  integrate %s\n  shared on\n  sharedFreq %d\n  outputFreq %d\n"
            "  writeCZARwindowFile on\n}\n" % (sp["full"], "on" if sp["integrate"] else "off", sp["F"], sp["O"]))


def z_of(sp, i, t):
    return 0.25 + 0.5 * sp["zs"][i][t] + sp["off"][i][t]


def start(sp, i, d, fds, restart=False):
    w = walkers.Walker(i, d, fds[i])
    for l in cvz.header(2, 1, temperature=300.0):
        w.send(l)
    if sp["binary"]:
        w.send("binary 1")
    w.send("replicas %d %d %s" % (i, sp["W"], " ".join(str(f) for f in fds[i])))
    c = w.cmd("config <<END\n%s\nEND" % czar_cfg(sp), "config")
    if c["rc"] != 0:
        raise RuntimeError("config rejected: %s" % c["errs"])
    if restart:
        l = w.cmd("load " + pct("w%d" % i), "load")
        if l["rc"] != 0:
            raise RuntimeError("LOADFAIL %s" % l["errs"])
    w.cmd("outprefix " + pct("w%d" % i), "outprefix")
    return w


def read_grid(path, nb):
    """second column of a 1-D multicolumn grid file, or None"""
    try:
        rows = [l.split() for l in open(path) if l.strip() and not l.startswith("#")]
    except OSError:
        return None
    if len(rows) != nb:
        return None
    return [float(r[1]) for r in rows]


def check_czar(sp, ctx):
    W, F, O, T, nb = sp["W"], sp["F"], sp["O"], sp["T"], sp["nb"]
    d = os.path.join(ctx["workdir"], "c14z_%d_%d" % (os.getpid(), ctx.setdefault("nz", 0)))
    ctx["nz"] += 1
    os.makedirs(d, exist_ok=True)
    fds, socks = walkers.star_sockets(W)
    ws = []

    def fail(msg, sig):
        text = "\n".join("### walker %d\n%s" % (w.idx, "\n".join(w.log)) for w in ws)
        return Outcome(False, msg=msg, sig=sig, case_text=text)

    def lockstep(command, tag, order):
        """a collective operation: everybody is told before anybody is waited for"""
        for i in order:
            ws[i].send(command(i) if callable(command) else command)
        return {i: ws[i].read_until(tag)[-1] for i in order}
    try:
        try:
            ws = [start(sp, i, d, fds) for i in range(W)]
        except RuntimeError as e:
            return fail("setup failed: %s" % e, "gen_invalid")
        own = [[] for _ in range(W)]     # (step, bin) of every sample a walker's CZAR histogram must hold
        first_of_run = [0] * W
        ngather = 0
        for t in range(T + 1):
            order = list(sp["order"][t])
            collective = (t > 0 and t % F == 0) or (t % O == 0)
            for i in order:
                ws[i].send(cvz.pos_line_z([z_of(sp, i, t)], 2))
                ws[i].send(cvz.fsys_line_z([0.0], 2))
            if collective:
                recs = lockstep("step", "step", order)
            else:
                recs = {i: ws[i].cmd("step", "step") for i in order}
            for i in order:
                r = recs[i]
                if r["errbits"] or r["it"] != t:
                    return fail("walker %d step %d: it=%s errs=%s" % (i, t, r["it"], r["errs"]), "czar_step_error")
                if t > first_of_run[i] and 0 <= sp["zs"][i][t] < nb:
                    own[i].append((t, sp["zs"][i][t]))
            if t > 0 and t % O == 0 and all(t > f for f in first_of_run):
                ngather += 1
            if sp["restart"] and sp["rk"] == t:
                # all walkers end their run together (the end of a run writes the output files, which gathers the CZAR grids: a
                # collective operation); the chosen ones are restarted from their state files, the others start a new run
                recs = lockstep("post_run", "post_run", order)
                for i in order:
                    if recs[i]["rc"] != 0:
                        return fail("post_run failed on walker %d: %s" % (i, recs[i]["errs"]), "czar_postrun")
                for i in sp["rws"]:
                    ws[i].close()
                    try:
                        ws[i] = start(sp, i, d, fds, restart=True)
                    except RuntimeError as e:
                        return fail("restart of walker %d at step %d failed: %s" % (i, t, e), "czar_restart_load")
                # step K again as the first step of the new run of the restarted walkers: a shared step for them only if ... the
                # library skips sharing at the first step of a run, so nothing collective happens here
                for i in sp["rws"]:
                    ws[i].send(cvz.pos_line_z([z_of(sp, i, t)], 2))
                    ws[i].send(cvz.fsys_line_z([0.0], 2))
                    r = ws[i].cmd("step", "step")
                    if r["errbits"] or r["it"] != t:
                        return fail("restarted walker %d: it=%s errs=%s" % (i, r["it"], r["errs"]), "czar_restart_step")
                    first_of_run[i] = t
        # end of the run: everybody writes its output files (gathering once more unless the last step already did)
        recs = lockstep("post_run", "post_run", list(sp["order"][T + 1]))
        for i, r in recs.items():
            if r["rc"] != 0:
                return fail("post_run failed on walker %d: %s" % (i, r["errs"]), "czar_postrun")
        ngather += 1
        hist = [[sum(1 for (tt, b) in own[i] if b == bb) for bb in range(nb)] for i in range(W)]
        loc_n, loc_g = [], []
        for i in range(W):
            n = read_grid(os.path.join(d, "w%d.zcount" % i), nb)
            g = read_grid(os.path.join(d, "w%d.zgrad" % i), nb)
            if n is None or g is None:
                return fail("walker %d wrote no local zcount/zgrad file" % i, "czar_files")
            if [int(v) for v in n] != hist[i]:
                return fail("walker %d: local z-histogram %s, its own samples counted once %s" % (i, [int(v) for v in n], hist[i]),
                            "czar_local_count")
            loc_n.append(n)
            loc_g.append(g)
        gn = read_grid(os.path.join(d, "w0.all.zcount"), nb)
        gg = read_grid(os.path.join(d, "w0.all.zgrad"), nb)
        if gn is None or gg is None:
            return fail("replica 0 wrote no gathered zcount/zgrad file", "czar_files")
        tot = [sum(hist[i][b] for i in range(W)) for b in range(nb)]
        if [int(v) for v in gn] != tot:
            return fail("gathered z-histogram %s, union of all walkers' samples counted once %s (per walker %s)" % ([int(v) for v in gn], tot, hist),
                        "czar_global_count")
        for b in range(nb):
            if tot[b]:
                exp = sum(loc_n[i][b] * loc_g[i][b] for i in range(W)) / tot[b]
                scale = max(1.0, max(abs(loc_g[i][b]) for i in range(W)))
                if abs(gg[b] - exp) > 1e-9 * scale:
                    return fail("bin %d: gathered z-gradient %r, sample-weighted mean of the walkers' local z-gradients %r" % (b, gg[b], exp),
                                "czar_global_gradient")
        shared = sum(1 for b in range(nb) if sum(1 for i in range(W) if hist[i][b]) >= 2)
        return Outcome(True, nontrivial=shared >= 1 and ngather >= 2,
                       cls=("czar", sp["restart"] or "", "W%d" % W, "int" if sp["integrate"] else ""),
                       strata=["czar"] + (["czar_restart_" + sp["restart"]] if sp["restart"] else []) + (["czar_shared_bin"] if shared else []),
                       case_text="")
    except walkers.WalkerTimeout as e:
        return fail("a walker hangs: %s" % e, "czar_hang")
    except walkers.WalkerDied as e:
        return fail("a walker died: %s" % e, "czar_crash")
    finally:
        for w in ws:
            w.close(kill=True)
        for s in socks:
            s.close()
        shutil.rmtree(d, ignore_errors=True)
