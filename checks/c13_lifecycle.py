"""C13: defining then deleting objects is the identity; dependencies stay consistent."""
import json
from hypothesis import strategies as st
from lib import cvz, zoo
from lib.gen import fl, rnd, fmt
from lib.core import Outcome, run_case, fnum, pct

ID = "C13"
LEVEL = "exploration"
RULE = ("Hypothesis generates sequences (<= 25 operations) over {add variable (pool: controlled z, distance, rmsd with fit, "
        "extended Lagrangian, total-force output, coordNum with pair list, distance with a named atom group, distance over atomsOfGroup of a live named group; and a definition re-using a registered group name, which must be refused and leave no trace), add bias of any zoo type on existing variables, "
        "delete bias, delete variable (cascades), cv reset, step}. Oracles: (1) differential - at every step at which no "
        "doomed object is alive, energies/forces/values are bitwise those of a run of the same sequence with the creation of "
        "later-deleted objects removed; per-object values/energies of survivors are compared at every step; (2) the number "
        "of active atoms equals the number of distinct atoms in the live definitions; (3) dependency-graph invariants "
        "through the read-only hook after every operation (enabled features have their requirements, exclusions hold, "
        "children/parents consistent). Non-trivial: >=1 deletion of an object sharing atoms or a variable with a survivor, "
        "followed by >=1 step.")
ASSUMPTIONS = ["same-step total forces (tf_mode 1) so that total-force users do not depend on other objects' applied forces"]

NAT = 8


def var_pool(i, kind, p):
    name = "v%d" % i
    a = (i % 4) + 1
    if kind == "z":
        return name, cvz.zvar(name, a, -4, 8, 0.5), {a}
    if kind == "zext":
        return name, cvz.zvar(name, a, -4, 8, 0.5, extra={"extendedLagrangian": "on", "extendedFluctuation": "0.3",
                                                         "extendedTimeConstant": "50", "extendedLangevinDamping": "0"}), {a}
    if kind == "ztf":
        return name, cvz.zvar(name, a, -4, 8, 0.5, extra={"outputTotalForce": "on", "outputAppliedForce": "on"}), {a}
    if kind == "zslow":
        # computed every second step only; its biases run on the same schedule
        return name, cvz.zvar(name, a, -4, 8, 0.5, extra={"timeStepFactor": "2"}), {a}
    if kind == "dist":
        b = ((i + 1) % 4) + 1
        return name, ("colvar {\n  name %s\n  width 0.5\n  lowerBoundary 0\n  upperBoundary 12\n  distance {\n    group1 { atomNumbers %d }\n"
                      "    group2 { atomNumbers %d %d }\n  }\n}" % (name, a, b, 5 + (i % 3))), {a, b, 5 + (i % 3)}
    if kind == "named":
        # its first group is registered under a name that later definitions may refer to (atomsOfGroup copies the atoms)
        b = ((i + 1) % 4) + 1
        return name, ("colvar {\n  name %s\n  width 0.5\n  lowerBoundary 0\n  upperBoundary 12\n  distance {\n    group1 {\n      name g%d\n"
                      "      atomNumbers %d %d\n    }\n    group2 { atomNumbers %d }\n  }\n}" % (name, i, a, 5 + (i % 3), b)), {a, b, 5 + (i % 3)}
    if kind == "ofgroup":
        gname, gatoms = p["group"]
        b = 8 if 8 not in gatoms else 7
        return name, ("colvar {\n  name %s\n  width 0.5\n  lowerBoundary 0\n  upperBoundary 12\n  distance {\n    group1 { atomsOfGroup %s }\n"
                      "    group2 { atomNumbers %d }\n  }\n}" % (name, gname, b)), set(gatoms) | {b}
    if kind == "dupgroup":
        # a definition the library must refuse (group name already registered) and remove again without trace
        gname, gatoms = p["group"]
        return name, ("colvar {\n  name %s\n  width 0.5\n  lowerBoundary 0\n  upperBoundary 12\n  distance {\n    group1 {\n      name %s\n"
                      "      atomNumbers %d 8\n    }\n    group2 { atomNumbers 7 }\n  }\n}" % (name, gname, a)), {a, 7, 8}
    if kind == "badkw":
        # refused after its component and atoms were set up (strict parsing: unknown keyword at the variable level)
        return name, cvz.zvar(name, a, -4, 8, 0.5, extra={"noSuchKeyword": "1"}), {a}
    if kind == "rmsd":
        return name, ("colvar {\n  name %s\n  width 0.5\n  lowerBoundary 0\n  upperBoundary 8\n  rmsd {\n    atoms { atomNumbers 1 2 5 6 7 }\n"
                      "    refPositions (0.1, 0.2, 0.3) (1.4, 0.1, -0.2) (0.3, 1.6, 0.4) (-0.2, 0.5, 1.8) (1.2, 1.3, 1.1)\n  }\n}" % name), {1, 2, 5, 6, 7}
    if kind == "coord":
        return name, ("colvar {\n  name %s\n  width 0.2\n  lowerBoundary 0\n  upperBoundary 4\n  coordNum {\n    cutoff 3.0\n    tolerance 0.001\n"
                      "    pairListFrequency 3\n    group1 { atomNumbers %d 8 }\n    group2 { atomNumbers 6 7 }\n  }\n}" % (name, a)), {a, 8, 6, 7}
    raise KeyError(kind)


VAR_KINDS = ["z", "z", "zext", "ztf", "dist", "rmsd", "coord", "named", "ofgroup", "dupgroup", "badkw"]
BIAS_KINDS = ["harmonic", "harmonic_moving", "walls", "linear", "abf", "meta", "meta_nogrid", "abmd", "histogram", "opes", "alb"]


@st.composite
def spec_seq(draw, tier):
    n = draw(st.integers(4, 25))
    ops = []
    for k in range(n):
        o = draw(st.sampled_from(["addvar", "addvar", "addbias", "addbias", "addbias", "delbias", "delbias", "delbiases", "delvar", "step", "step", "step",
                                  "step", "reset"] if k > 2 else ["addvar", "addbias"]))
        ops.append({"op": o, "kind": draw(st.sampled_from(VAR_KINDS if o == "addvar" else BIAS_KINDS)), "pick": draw(st.integers(0, 50)),
                    "pick2": draw(st.integers(0, 50)), "k": rnd(draw(fl(0.5, 5)), 2), "c": rnd(draw(fl(-1, 4)), 2)})
    if not any(o["op"] == "step" for o in ops):
        ops.append({"op": "step", "kind": "z", "pick": 0, "pick2": 0, "k": 1.0, "c": 0.0})
    T = sum(1 for o in ops if o["op"] == "step")
    pos = [[[rnd(0.9 * a + draw(fl(-0.4, 0.4)), 3), rnd(0.4 * (a % 3) + draw(fl(-0.4, 0.4)), 3), rnd(0.7 * (a % 2) + draw(fl(-0.6, 0.6)), 3)]
            for a in range(NAT)] for _ in range(T)]
    fs = [[rnd(draw(fl(-2, 2)), 2) for _ in range(NAT)] for _ in range(T)]
    return {"ops": ops, "pos": pos, "fsys": fs}


def bias_cfg(kind, name, vnames, o, vkinds):
    if "zslow" in vkinds:
        return bias_cfg_("harmonic", name, vnames, o, vkinds)[:-1] + "  timeStepFactor 2\n}"
    txt = bias_cfg_(kind, name, vnames, o, vkinds)
    # some stateless restraints act every 2nd / 3rd step only: they sleep in between, and may be deleted while asleep
    if kind in ("harmonic", "walls", "linear") and o.get("pick2", 0) % 5 == 4 and "zext" not in vkinds:
        txt = txt[:-1] + "  timeStepFactor %d\n}" % (2 + o.get("pick", 0) % 2)
    return txt


def bias_cfg_(kind, name, vnames, o, vkinds):
    v = vnames[0]
    k, c = fmt(o["k"]), fmt(o["c"])
    if kind == "harmonic":
        return "harmonic {\n  name %s\n  colvars %s\n  centers %s\n  forceConstant %s\n}" % (name, " ".join(vnames), " ".join([c] * len(vnames)), k)
    if kind == "harmonic_moving":
        return "harmonic {\n  name %s\n  colvars %s\n  centers %s\n  targetCenters %s\n  targetNumSteps 5\n  forceConstant %s\n}" % (name, v, c, fmt(o["c"] + 1), k)
    if kind == "walls":
        return "harmonicWalls {\n  name %s\n  colvars %s\n  lowerWalls %s\n  upperWalls %s\n  forceConstant %s\n}" % (name, v, c, fmt(o["c"] + 1), k)
    if kind == "linear":
        return "linear {\n  name %s\n  colvars %s\n  centers %s\n  forceConstant %s\n}" % (name, v, c, k)
    if kind == "abf":
        return "abf {\n  name %s\n  colvars %s\n  fullSamples 2\n  integrate off\n}" % (name, v)
    if kind == "meta":
        return "metadynamics {\n  name %s\n  colvars %s\n  hillWeight 0.2\n  hillWidth 2.0\n  newHillFrequency 2\n  writeFreeEnergyFile off\n}" % (name, " ".join(vnames))
    if kind == "meta_nogrid":
        return "metadynamics {\n  name %s\n  colvars %s\n  hillWeight 0.2\n  hillWidth 2.0\n  newHillFrequency 1\n  useGrids off\n}" % (name, v)
    if kind == "abmd":
        return "abmd {\n  name %s\n  colvars %s\n  forceConstant %s\n  stoppingValue 20\n}" % (name, v, k)
    if kind == "histogram":
        return "histogram {\n  name %s\n  colvars %s\n}" % (name, " ".join(vnames))
    if kind == "opes":
        return "opes_metad {\n  name %s\n  colvars %s\n  newHillFrequency 2\n  barrier 5\n  gaussianSigma 0.4\n}" % (name, v)
    if kind == "alb":
        c = o["c"] + 0.7    # a zero centre is rejected by the library (ALB divides by it)
        return "alb {\n  name %s\n  colvars %s\n  centers %s\n  updateFrequency 6\n}" % (name, v, fmt(c if c != 0.0 else 0.35))
    raise KeyError(kind)


def plan(spec):
    """interpret the generated operations against a model of the live objects; returns the concrete operation list
    with names, and for every object whether it is ever deleted"""
    live_v, live_b = [], []          # (name, kind, atoms) / (name, kind, vars)
    groups = []                      # registered group names: (group name, atoms of the group, owning variable)
    out = []
    nv = nb = 0
    doomed = set()
    created = {}
    for o in spec["ops"]:
        op = o["op"]
        if op == "addvar":
            nv += 1
            kind = o["kind"]
            if kind in ("ofgroup", "dupgroup") and not groups:
                kind = "named"
            p = dict(o)
            if kind in ("ofgroup", "dupgroup"):
                g = groups[o["pick"] % len(groups)]
                p["group"] = (g[0], g[1])
            name, cfg, atoms = var_pool(nv, kind, p)
            if kind in ("dupgroup", "badkw"):
                doomed.add(name)
                out.append({"op": "rejvar", "name": name, "cfg": cfg, "why": kind})
                continue
            if kind == "named":
                a = (nv % 4) + 1
                groups.append(("g%d" % nv, sorted({a, 5 + (nv % 3)}), name))
            live_v.append((name, kind, atoms))
            out.append({"op": "addvar", "name": name, "cfg": cfg, "atoms": sorted(atoms)})
            if kind == "ofgroup":
                # where the owner of the group never exists (clean run), the same atoms are listed explicitly
                out[-1]["owner"] = g[2]
                out[-1]["cfg_clean"] = cfg.replace("atomsOfGroup %s" % g[0], "atomNumbers %s" % " ".join(str(x) for x in g[1]))
        elif op == "addbias":
            if not live_v:
                continue
            kind = o["kind"]
            cand = [v for v in live_v]
            v1 = cand[o["pick"] % len(cand)]
            vs = [v1]
            if kind in ("harmonic", "meta", "histogram") and len(cand) > 1 and o["pick2"] % 2:
                v2 = cand[o["pick2"] % len(cand)]
                if v2[0] != v1[0]:
                    vs.append(v2)
            # compatibility rules of the library (not under test here)
            if kind == "abf" and any(v[1] in ("coord", "zext") for v in vs):
                kind = "harmonic"
            if kind in ("abf",) and any(v[1] == "rmsd" for v in vs):
                kind = "harmonic"
            if kind in ("alb", "opes", "abmd", "linear", "walls", "harmonic_moving", "meta_nogrid") and v1[1] == "zext":
                kind = "harmonic"
            nb += 1
            name = "b%d" % nb
            if kind in ("harmonic", "walls", "linear") and o["pick2"] % 7 == 6:
                # a bias the library must refuse (unknown keyword, found after the bias has claimed its variables) and remove itself
                doomed.add(name)
                out.append({"op": "rejvar", "name": name, "why": "badkw",
                            "cfg": bias_cfg(kind, name, [v[0] for v in vs], o, [v[1] for v in vs])[:-1] + "  noSuchKeyword 1\n}"})
                continue
            live_b.append((name, kind, [v[0] for v in vs]))
            out.append({"op": "addbias", "name": name, "cfg": bias_cfg(kind, name, [v[0] for v in vs], o, [v[1] for v in vs]),
                        "vars": [v[0] for v in vs], "kind": kind})
        elif op == "delbias":
            if not live_b:
                continue
            b = live_b.pop(o["pick"] % len(live_b))
            doomed.add(b[0])
            out.append({"op": "delbias", "name": b[0]})
        elif op == "delbiases":
            # every bias goes: the variables stay, with nothing acting on them
            for b in live_b:
                doomed.add(b[0])
                out.append({"op": "delbias", "name": b[0]})
            live_b = []
        elif op == "delvar":
            if not live_v:
                continue
            v = live_v.pop(o["pick"] % len(live_v))
            doomed.add(v[0])
            groups = [g for g in groups if g[2] != v[0]]
            gone = [b for b in live_b if v[0] in b[2]]
            for b in gone:
                doomed.add(b[0])
            live_b = [b for b in live_b if v[0] not in b[2]]
            out.append({"op": "delvar", "name": v[0], "cascade": [b[0] for b in gone]})
        elif op == "reset":
            for v in live_v:
                doomed.add(v[0])
            for b in live_b:
                doomed.add(b[0])
            live_v, live_b = [], []
            groups = []
            out.append({"op": "reset"})
        else:
            out.append({"op": "step"})
    return out, doomed


def build(spec, ops, skip=()):
    L = cvz.header(NAT, 1, temperature=300.0)
    t = 0
    for io, o in enumerate(ops):
        op = o["op"]
        L.append("echo op%d" % io)
        if op in ("addvar", "addbias", "rejvar"):
            if o["name"] in skip:
                continue
            L.append("config <<END\n%s\nEND" % (o["cfg_clean"] if o.get("owner") in skip else o["cfg"]))
            if op == "rejvar":
                L.append("clear_error")     # as a scripting host does before its next command
        elif op == "delbias":
            if o["name"] in skip:
                continue
            L.append("script cv bias %s delete" % o["name"])
        elif op == "delvar":
            if o["name"] in skip:
                continue
            L.append("script cv colvar %s delete" % o["name"])
        elif op == "reset":
            if skip:
                continue          # in the clean run nothing is alive at a reset (everything alive then is doomed)
            L.append("reset")
        else:
            L.append("pos " + " ".join(fnum(c) for a in spec["pos"][t] for c in a))
            L.append(cvz.fsys_line_z(spec["fsys"][t], NAT))
            L.append("step")
            t += 1
        L.append("atoms")
        L.append("deps")
        L.append("depsdump")
    return "\n".join(L) + "\n"


def atom_forces(s):
    F = {}
    for slot, aid in enumerate(s["ids"]):
        f = F.setdefault(aid, [0.0, 0.0, 0.0])
        for d in range(3):
            f[d] += s["F"][slot][d]
    return {a: f for a, f in F.items() if any(c != 0.0 for c in f)}


def check_seq(spec, ctx, variant="rel"):
    ops, doomed = plan(spec)
    caseA = build(spec, ops)
    caseB = build(spec, ops, skip=doomed)
    rA, rB = run_case(caseA, variant=variant), run_case(caseB, variant=variant)
    full = caseA + "\n# ---- clean run (later-deleted objects never created) ----\n" + caseB
    for r, nm in ((rA, "full"), (rB, "clean")):
        if r.crashed:
            return Outcome(False, msg="crash in the %s run rc=%s: %s" % (nm, r.returncode, r.stderr[-700:]), sig="crash", case_text=full)
    def configs_by_op(r):
        out, cur = {}, None
        for rec in r.recs:
            if rec.get("t") == "echo":
                cur = int(rec["token"][2:])
            elif rec.get("t") == "config" and cur is not None:
                out[cur] = rec
        return out
    cfA, cfB = configs_by_op(rA), configs_by_op(rB)
    rejected_seen = 0
    for io, o in enumerate(ops):
        if o["op"] == "rejvar":
            if io in cfB:
                return Outcome(False, msg="harness: rejected definition submitted in the clean run", sig="harness", case_text=full)
            if cfA[io]["rc"] == 0:
                if o.get("why") == "badkw":
                    return Outcome(False, msg="op%d: definition of %s with an unknown keyword was accepted" % (io, o["name"]),
                                   sig="unknown_keyword_accepted", case_text=full)
                return Outcome(False, msg="op%d: variable %s re-uses a registered atom-group name and was accepted (the name was registered by a "
                               "variable that is still alive)" % (io, o["name"]), sig="duplicate_group_accepted", case_text=full)
            rejected_seen += 1
            continue
        for c, nm in ((cfA.get(io), "full"), (cfB.get(io), "clean")):
            if c is not None and c["rc"] != 0:
                other = cfB.get(io) if nm == "full" else cfA.get(io)
                if other is not None and other["rc"] == 0 and (rejected_seen or nm == "clean"):
                    return Outcome(False, msg="op%d: definition of %s is refused in the %s run (%s) but accepted in the other one: the two "
                                   "histories differ only by objects that were defined and removed again" % (io, o.get("name"), nm, c["errs"]),
                                   sig="identity_acceptance", case_text=full)
                return Outcome(False, msg="generated configuration rejected: %s" % c["errs"], sig="gen_invalid", case_text=full)
    for sc in rA.of("script") + rB.of("script"):
        if sc["rc"] != 0:
            return Outcome(False, msg="delete command failed: %s %s" % (sc["result"], sc["errs"]), sig="delete_failed", case_text=full)
    # dependency-graph invariants after every operation (hook)
    for d in rA.of("deps"):
        if d["rc"] != 0:
            return Outcome(False, msg="dependency graph inconsistent: %s" % d["report"][:1500], sig="deps", case_text=full)
    # model of live objects in the full run, per step
    live_v, live_b = {}, {}
    vkind = {}
    tainted = set()     # extended-Lagrangian variables whose fictitious coordinate felt a later-deleted bias: their history
                        # legitimately differs from the run in which that bias never existed
    sA, sB = rA.of("step"), rB.of("step")
    aA, aB = rA.of("atoms"), rB.of("atoms")
    if len(sA) != len(sB):
        return Outcome(False, msg="different number of steps in the two runs", sig="harness", case_text=full)
    ti = 0
    ai = 0
    interesting = False
    shared_deletion = False
    steps_after_delete = 0
    deleted_any = False
    def dumps_by_op(r):
        out, cur = {}, None
        for rec in r.recs:
            if rec.get("t") == "echo":
                cur = int(rec["token"][2:])
            elif rec.get("t") == "depsdump" and cur is not None:
                out[cur] = rec["dump"]
        return out
    slow_b = set()
    dumpA, dumpB = dumps_by_op(rA), dumps_by_op(rB)
    for iop, o in enumerate(ops):
        op = o["op"]
        if op == "rejvar":
            deleted_any = True
            shared_deletion = True      # re-uses a name (and atoms) of a live definition
        elif op == "addvar":
            live_v[o["name"]] = set(o["atoms"])
            vkind[o["name"]] = "ext" if "extendedLagrangian" in o["cfg"] else "plain"
        elif op == "addbias":
            live_b[o["name"]] = o["vars"]
            if "timeStepFactor" in o["cfg"]:
                slow_b.add(o["name"])
        elif op == "delbias":
            vs = live_b.pop(o["name"])
            deleted_any = True
            if any(v in live_v for v in vs):
                shared_deletion = True
        elif op == "delvar":
            at = live_v.pop(o["name"])
            for b in o["cascade"]:
                live_b.pop(b, None)
            deleted_any = True
            if any(at & a2 for a2 in live_v.values()):
                shared_deletion = True
        elif op == "reset":
            live_v, live_b = {}, {}
            deleted_any = True
        else:
            a, b = sA[ti], sB[ti]
            ti += 1
            for bn, vs_ in live_b.items():
                if bn in doomed:
                    tainted.update(v for v in vs_ if vkind.get(v) == "ext")
            # propagate: a bias that reads a tainted coordinate has a tainted history and passes it on to the other
            # extended coordinates it acts on
            changed = True
            while changed:
                changed = False
                for bn, vs_ in live_b.items():
                    if any(v in tainted for v in vs_):
                        if bn not in tainted:
                            tainted.add(bn)
                            changed = True
                        for v in vs_:
                            if vkind.get(v) == "ext" and v not in tainted:
                                tainted.add(v)
                                changed = True
            if a["errbits"] or b["errbits"]:
                return Outcome(False, msg="step error: %s | %s" % (a["errs"], b["errs"]), sig="step_error", case_text=full)
            if deleted_any:
                steps_after_delete += 1
            # survivors: per-object quantities
            cvB = {c["name"]: c for c in b["cv"]}
            bB = {x["name"]: x for x in b["bias"]}
            for c in a["cv"]:
                if c["name"] in doomed or c["name"] in tainted:
                    continue
                cb = cvB.get(c["name"])
                if cb is None:
                    return Outcome(False, msg="variable %s missing in the clean run" % c["name"], sig="harness", case_text=full)
                if not c["active"] and not cb["active"]:
                    continue      # asleep in both runs (all its users are asleep at this step): the value is whatever was computed last
                if c["active"] != cb["active"]:
                    if any(bn in slow_b and c["name"] in vs_ for bn, vs_ in live_b.items()) and \
                            any(bn in doomed and c["name"] in vs_ for bn, vs_ in live_b.items()):
                        continue  # in one of the two runs its only users are asleep at this step (documented: it is not computed then),
                        #           because the other run has one more, or one less, user of the variable
                    return Outcome(False, msg="step %d: surviving variable %s is %s, but %s had the deleted objects never existed" % (
                        a["it"], c["name"], "computed" if c["active"] else "asleep", "computed" if cb["active"] else "asleep"),
                        sig="survivor_activity", case_text=full)
                if c["x"] != cb["x"]:
                    return Outcome(False, msg="step %d: value of surviving variable %s is %r, but %r had the deleted objects never existed" %
                                   (a["it"], c["name"], c["x"], cb["x"]), sig="survivor_value", case_text=full)
            for x in a["bias"]:
                if x["name"] in doomed or x["name"] in tainted or any(v in tainted for v in live_b.get(x["name"], [])):
                    continue
                if x["E"] != bB[x["name"]]["E"]:
                    return Outcome(False, msg="step %d: energy of surviving bias %s is %r, but %r had the deleted objects never existed" %
                                   (a["it"], x["name"], x["E"], bB[x["name"]]["E"]), sig="survivor_energy", case_text=full)
            alive_doomed = [n for n in list(live_v) + list(live_b) if n in doomed]
            if not alive_doomed and not any(v in tainted for v in live_v) and not any(bn in tainted for bn in live_b):
                if a["E"] != b["E"]:
                    return Outcome(False, msg="step %d: engine energy %r, but %r had the deleted objects never existed" % (a["it"], a["E"], b["E"]),
                                   sig="identity_energy", case_text=full)
                for c in a["cv"]:
                    cb = cvB.get(c["name"])
                    if cb is not None and c["f"] != cb["f"]:
                        return Outcome(False, msg="step %d: force applied to surviving variable %s is %r, but %r had the deleted objects never existed" %
                                       (a["it"], c["name"], c["f"], cb["f"]), sig="identity_applied_force", case_text=full)
                FA, FB = atom_forces(a), atom_forces(b)
                if FA != FB:
                    diff = [(k, FA.get(k), FB.get(k)) for k in sorted(set(FA) | set(FB)) if FA.get(k) != FB.get(k)][:3]
                    return Outcome(False, msg="step %d: atomic forces differ from the run in which the deleted objects never existed: %s" %
                                   (a["it"], diff), sig="identity_force", case_text=full)
                if deleted_any:
                    interesting = True
        # active atoms after every operation
        na = aA[ai]["nactive"]
        ai += 1
        expect = len(set().union(*live_v.values())) if live_v else 0
        if na != expect:
            return Outcome(False, msg="after '%s %s': %d active atoms, but the live definitions use %d distinct atoms" %
                           (op, o.get("name", ""), na, expect), sig="atoms_not_released", case_text=full)
    kinds = sorted(set(o.get("kind", o["op"]) for o in ops if o["op"] == "addbias"))
    named = [x for x, fl_ in (("named_group", any("atomsOfGroup" in o.get("cfg", "") for o in ops)), ("rejected_definition", rejected_seen > 0)) if fl_]
    nontrivial = shared_deletion and steps_after_delete >= 1 and interesting
    return Outcome(True, nontrivial=nontrivial, cls=(",".join(kinds), "reset" if any(o["op"] == "reset" for o in ops) else ""),
                   strata=["bias:" + k for k in kinds] + (["shared_deletion"] if shared_deletion else []) + named +
                   (["reset"] if any(o["op"] == "reset" for o in ops) else []), case_text=full)


def view(spec):
    ops, doomed = plan(spec)
    return {"ops": [(o["op"], o.get("name"), o.get("kind")) for o in ops], "doomed": sorted(doomed)}


BUILD_TARGETS = ["rel", "asan"]
PARTS = {
    "sequences": {"strategy": spec_seq, "check": check_seq, "examples": {"quick": 6000, "thorough": 40000}, "sample": view},
    # the same sequences under AddressSanitizer/UBSan: a reference to a deleted object is a use-after-free report
    "sequences_asan": {"strategy": spec_seq, "check": lambda s, c: check_seq(s, c, variant="asan"),
                       "examples": {"quick": 800, "thorough": 6000}, "sample": view},
}
