"""C12: results do not depend on threading or on the order of evaluation."""
import math
import os
from hypothesis import strategies as st
from lib import gen, biases
from lib.gen import fl, rnd, fmt
from lib.core import Outcome, run_case, fnum

ID = "C12"
LEVEL = "exploration"
RULE = ("Hypothesis generates systems with 2-4 variables of 1-3 components (shared atoms), 2-4 biases (harmonic, linear, walls, "
        "histogramRestraint, metadynamics, histogram) plus the scripted-force task, and a schedule tape: permutation of the work "
        "items of each loop, number of threads 1-8 and item->thread assignment; the harness (not OpenMP) executes the items. "
        "Oracles: (order) per-step values, energies, forces and the final state are bitwise those of the canonical serial run, "
        "for the serial-permuted and the real-thread schedules; log depth returns to 0; an error raised by one item sets the "
        "same error bits whatever the schedule; (race) the same cases under ThreadSanitizer with real threads: any report is "
        "a violation. Non-trivial: >=4 work items, non-identity permutation, >=2 threads.")
ASSUMPTIONS = ["interleavings inside a work item are chosen by the OS; ThreadSanitizer sees only the schedules executed"]
BUILD_TARGETS = ["rel", "tsan"]


@st.composite
def spec_thr(draw, tier):
    sysd = draw(gen.system(6, 12, cell=False))
    ncv = draw(st.integers(2, 4))
    cvs = []
    for i in range(ncv):
        if draw(st.integers(0, 5)) == 0:
            cvs.append(draw(gen.nonscalar_colvar(sysd, "cv%d" % (i + 1))))
        else:
            cvs.append(draw(gen.scalar_colvar(sysd, "cv%d" % (i + 1))))
    nb = draw(st.integers(2, 4))
    bs = []
    for j in range(nb):
        kinds = ["harmonic", "harmonic", "linear"]
        if any(c["vtype"] == gen.SCALAR for c in cvs):
            kinds += ["harmonicWalls", "meta", "histogram"]
        if any((c["vtype"] == gen.SCALAR and not c.get("periodic")) or c["vtype"] == gen.VECN for c in cvs):
            kinds += ["histogramRestraint"]
        k = draw(st.sampled_from(kinds))
        if k in ("meta", "histogram"):
            scal = [i for i, c in enumerate(cvs) if c["vtype"] == gen.SCALAR]
            bs.append({"type": k, "name": "b%d" % (j + 1), "cvs": [draw(st.sampled_from(scal))]})
            continue
        mk = {"harmonic": biases.harmonic, "linear": biases.linear, "harmonicWalls": biases.harmonic_walls,
              "histogramRestraint": biases.histogram_restraint}[k]
        b = draw(mk(cvs, name="b%d" % (j + 1)))
        bs.append(b if b is not None else draw(biases.harmonic(cvs, name="b%d" % (j + 1))))
    T = draw(st.integers(2, 5))
    extra = draw(st.integers(0, 2)) == 0
    if extra:
        # variables that no bias uses, computed every 2nd / 3rd step: the set of active work items changes from step to step
        # while their number may stay the same
        T = max(T, 4)
        for j, f in enumerate((2, 3)):
            c = draw(gen.scalar_colvar(sysd, "cvx%d" % (j + 1), max_comps=1, allow_scripted=False))
            c["kv"] = dict(c.get("kv") or {}, timeStepFactor=str(f))
            cvs.append(c)
    # one metadynamics bias may publish its hills for other walkers (it then has to run on the main thread)
    mw = [b for b in bs if b["type"] == "meta"]
    if mw and draw(st.booleans()):
        mw[0]["mw"] = True
        # hills are written at every step, peers are read every ruf-th step: the bias needs the main thread at all of them
        mw[0]["ruf"] = draw(st.sampled_from([1, 2, 4]))
    n = sysd["natoms"]
    moves = [[[rnd(draw(fl(-0.15, 0.15)), 3) for _ in range(3)] for _ in range(n)] for _ in range(T)]
    return {"sys": sysd, "cvs": cvs, "biases": bs, "moves": moves, "nthreads": draw(st.integers(2, 8)),
            "tape": [draw(st.integers(0, 9999)) for _ in range(24)], "scripted": draw(st.booleans()),
            "error_item": draw(st.integers(0, 5)) == 0}


def render_b(b, cvs, values):
    if b["type"] == "meta":
        return "metadynamics {\n  name %s\n  colvars %s\n  hillWeight 0.1\n  hillWidth 2.0\n  newHillFrequency 1\n  useGrids off\n%s}" % (
            b["name"], cvs[b["cvs"][0]]["name"],
            "  multipleReplicas on\n  replicaID r0\n  replicasRegistry registry.txt\n  replicaUpdateFrequency %d\n" % b.get("ruf", 1) if b.get("mw") else "")
    if b["type"] == "histogram":
        v = values[b["cvs"][0]][0]
        return "histogram {\n  name %s\n  colvars %s\n  grid {\n    width 1.0\n    lowerBoundary %s\n    upperBoundary %s\n  }\n}" % (
            b["name"], cvs[b["cvs"][0]]["name"], fmt(math.floor(v) - 3.0), fmt(math.floor(v) + 4.0))
    return biases.render_bias(b, cvs, values)


def config(spec, values, workdir, with_biases=True):
    igs = []
    cvs = spec["cvs"]
    parts = []
    for i, cv in enumerate(cvs):
        c = dict(cv)
        if spec["error_item"] and i < 3 and with_biases and len(cv["comps"]) >= 1:
            # up to three failing items: their errors are raised concurrently on different threads
            c = dict(cv)
            c["scripted"] = "verr"     # the engine-side callback of this scripted function returns an error
            c["comps"] = [dict(x, coeff=1.0, exp=1) for x in cv["comps"]] if cv["vtype"] == gen.SCALAR else cv["comps"]
            if cv["vtype"] != gen.SCALAR:
                c.pop("scripted")
        parts.append(gen.render_colvar(c, igs))
    head = ""
    if igs:
        path = os.path.join(workdir, "ig_%d.ndx" % os.getpid())
        open(path, "w").write(gen.render_index_file(igs))
        head = "indexFile %s\n" % path
    if with_biases:
        if spec["scripted"]:
            head += "scriptedColvarForces on\n"
        for b in spec["biases"]:
            parts.append(render_b(b, cvs, values))
    return head + "\n".join(parts)


def case(spec, cfg, sched, variant_extra=()):
    sysd = spec["sys"]
    L = gen.case_header(sysd)
    L.append(sched)
    if spec["scripted"]:
        L.append("scripted_force %s 0.37" % spec["cvs"][-1]["name"])
    L.append(gen.config_block(cfg))
    if any(b.get("mw") for b in spec["biases"]):
        L.append("outprefix mw")
    pos = [list(p) for p in sysd["pos"]]
    for mv in spec["moves"]:
        pos = [[p[d] + m[d] for d in range(3)] for p, m in zip(pos, mv)]
        L += [gen.pos_line(pos), "step"]
    L.append("savestr")
    return "\n".join(L) + "\n"


def scratch_dir(ctx):
    """a fresh empty directory per run (replica files of a multiple-walker bias are written to the working directory)"""
    import shutil
    d = os.path.join(ctx["workdir"], "c12_%d" % os.getpid())
    shutil.rmtree(d, ignore_errors=True)
    os.makedirs(d)
    return d


def first_pass(spec, ctx):
    sysd = spec["sys"]
    cfg1 = config(spec, None, ctx["workdir"], with_biases=False)
    r1 = run_case("\n".join(gen.case_header(sysd) + [gen.config_block(cfg1), gen.pos_line(sysd["pos"]), "step"]) + "\n")
    if r1.crashed or r1.of("config")[0]["rc"] != 0 or r1.of("step")[0]["errbits"]:
        return None, Outcome(False, msg="variables rejected: %s %s" % (r1.of("config")[:1], r1.stderr[-300:]), sig="gen_invalid")
    vals = [c["x"] for c in r1.of("step")[0]["cv"]]
    if any(not math.isfinite(v) for val in vals for v in val):
        return None, Outcome(discard=True)
    return vals, None


def digest(r):
    out = []
    for s in r.of("step"):
        out.append((s["it"], s["errbits"], s["E"], s["F"], [(c["name"], c["x"], c["f"]) for c in s["cv"]],
                    [(b["name"], b["E"]) for b in s["bias"]], s["depth"]))
    return out


def check_order(spec, ctx):
    vals, bad = first_pass(spec, ctx)
    if bad:
        return bad
    cfg = config(spec, vals, ctx["workdir"])
    tape = " ".join(str(t) for t in spec["tape"])
    scheds = {"serial": "schedule 0 1", "permuted": "schedule 1 1 " + tape, "threads": "schedule 2 %d %s" % (spec["nthreads"], tape)}
    runs = {}
    for name, sc in scheds.items():
        c = case(spec, cfg, sc)
        r = run_case(c, cwd=scratch_dir(ctx))
        if r.crashed:
            return Outcome(False, msg="crash with schedule '%s': rc=%s %s" % (name, r.returncode, r.stderr[-500:]), sig="crash", case_text=c)
        if r.of("config")[0]["rc"] != 0:
            if spec["error_item"]:
                runs[name] = (r, c)
                continue
            return Outcome(False, msg="configuration rejected: %s" % r.of("config")[0]["errs"], sig="gen_invalid", case_text=c)
        runs[name] = (r, c)
    base, cbase = runs["serial"]
    nitems = sum(len(cv["comps"]) for cv in spec["cvs"])
    for name in ("permuted", "threads"):
        r, c = runs[name]
        da, db = digest(base), digest(r)
        if len(da) != len(db):
            return Outcome(False, msg="schedule '%s' executes %d steps, serial %d" % (name, len(db), len(da)), sig="order_steps", case_text=c)
        for x, y in zip(da, db):
            if spec["error_item"]:
                # an item failed: what must agree is the error state (which items were still evaluated is unspecified)
                if (x[1] != 0) != (y[1] != 0) or x[1] != y[1]:
                    return Outcome(False, msg="step %d: error bits %d in the serial run, %d with schedule '%s'" % (x[0], x[1], y[1], name),
                                   sig="error_bits", case_text=c)
                continue
            if x != y:
                what = [k for k, (p, q) in enumerate(zip(x, y)) if p != q]
                names = ["step", "error bits", "energy", "atomic forces", "variables", "bias energies", "log depth"]
                return Outcome(False, msg="step %d: %s differ between the serial run and schedule '%s' (%d threads): %r vs %r" %
                               (x[0], ", ".join(names[k] for k in what), name, spec["nthreads"], [x[k] for k in what][:2], [y[k] for k in what][:2]),
                               sig="order_" + name, case_text=c)
            if x[6] != 0:
                return Outcome(False, msg="log depth is %d after a step" % x[6], sig="depth", case_text=c)
        sa, sb = base.of("savestr"), r.of("savestr")
        if not spec["error_item"] and sa and sb and sa[0]["state"] != sb[0]["state"]:
            return Outcome(False, msg="final states differ between the serial run and schedule '%s'" % name, sig="order_state", case_text=c)
    cls = ("items%d" % min(nitems, 8), "nb%d" % len(spec["biases"]), "scripted" if spec["scripted"] else "", "err" if spec["error_item"] else "")
    return Outcome(True, nontrivial=nitems >= 4 and spec["nthreads"] >= 2, cls=cls,
                   strata=["bias:" + b["type"] for b in spec["biases"]] + (["scripted_force"] if spec["scripted"] else []) +
                   (["error_item"] if spec["error_item"] else []) + (["tsf_variables"] if any((cv.get("kv") or {}).get("timeStepFactor") for cv in spec["cvs"]) else []) +
                   (["mw_meta"] if any(b.get("mw") for b in spec["biases"]) else []), case_text=runs["threads"][1])


def check_race(spec, ctx):
    vals, bad = first_pass(spec, ctx)
    if bad:
        return bad
    cfg = config(spec, vals, ctx["workdir"])
    tape = " ".join(str(t) for t in spec["tape"])
    c = case(spec, cfg, "schedule 2 %d %s" % (spec["nthreads"], tape))
    r = run_case(c, variant="tsan", timeout=300, cwd=scratch_dir(ctx))
    if "ThreadSanitizer" in r.stderr or r.returncode == 66:
        rep = r.stderr[r.stderr.find("WARNING: ThreadSanitizer"):][:2500] if "WARNING: ThreadSanitizer" in r.stderr else r.stderr[-2500:]
        import re
        m = re.search(r"#0 (\S+) ", rep)
        fn = re.findall(r"#\d+ ([\w:~<>]+)[^\n]*?/repo/src/(\w+\.\w+)", rep)
        site = "%s@%s" % (fn[0][0], fn[0][1]) if fn else "unknown"
        return Outcome(False, msg="ThreadSanitizer report with %d threads:\n%s" % (spec["nthreads"], rep), sig="race:" + site, case_text=c)
    if r.crashed:
        return Outcome(False, msg="crash under ThreadSanitizer rc=%s %s" % (r.returncode, r.stderr[-500:]), sig="crash", case_text=c)
    nitems = sum(len(cv["comps"]) for cv in spec["cvs"])
    return Outcome(True, nontrivial=nitems >= 4 and spec["nthreads"] >= 2, cls=("items%d" % min(nitems, 8), "t%d" % spec["nthreads"]),
                   strata=["bias:" + b["type"] for b in spec["biases"]], case_text=c)


def view(spec):
    return {"natoms": spec["sys"]["natoms"], "variables": [gen.render_colvar(cv) for cv in spec["cvs"]],
            "biases": [b["type"] for b in spec["biases"]], "nthreads": spec["nthreads"], "tape": spec["tape"][:8], "scripted": spec["scripted"]}


REQUIRED_STRATA = {"all": ["order:tsf_variables", "order:mw_meta", "order:error_item", "order:scripted_force"]}

PARTS = {
    "order": {"strategy": spec_thr, "check": check_order, "examples": {"quick": 1200, "thorough": 12000}, "sample": view},
    "race": {"strategy": spec_thr, "check": check_race, "examples": {"quick": 400, "thorough": 3000}, "sample": view},
}
