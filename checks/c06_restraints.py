"""C06: restraints implement their documented potentials and time schedules."""
import math
import os
import re
from hypothesis import strategies as st
from lib import gen, cvz, biases, refmodel
from lib.gen import fl, rnd, fmt, SCALAR, VEC3, UNIT3, QUAT, VECN
from lib.core import Outcome, run_case, fnum, pct

ID = "C06"
LEVEL = "exploration"
RULE = ("(potentials) generated variables of every value type (scalar, periodic, 3-vector, unit vector, quaternion, vector) with "
        "harmonic / harmonicWalls / linear restraints; energy compared with the manual's closed form evaluated in Python on the "
        "reported values (rel 1e-10). (abmd) ratchet model from the manual on generated value histories. (schedule) controlled "
        "variables with moving centres or force constant (continuous, staged, lambdaSchedule, decoupling, lambdaExponent, "
        "targetEquilSteps): centre and k recovered at every step from energy and force and compared with the schedule as a "
        "function of the step number; accumulated work vs sum of force*increment; staged TI log vs mean dU/dlambda. "
        "(segments) the same schedule cut at a generated step and restarted from the saved state gives the same per-step "
        "energies. Non-trivial: energy>0 on both sides of a wall/seam; schedule crosses >=2 stages or reaches its target; "
        "cut strictly inside a stage.")
ASSUMPTIONS = ["the phase of stage boundaries is the documented one: stage s of a staged schedule lasts targetNumSteps steps"]


# ------------------------------------------------------------------------------------------------ potentials

def dist2(cv, a, b):
    vt = cv["vtype"]
    if vt == SCALAR:
        d = a[0] - b[0]
        if cv.get("periodic"):
            P = cv["periodic"]
            d -= P * math.floor(d / P + 0.5)
        return d * d
    if vt in (VEC3, VECN):
        return sum((x - y) ** 2 for x, y in zip(a, b))
    dot = sum(x * y for x, y in zip(a, b))
    dot = max(-1.0, min(1.0, dot))
    if vt == UNIT3:
        return math.acos(dot) ** 2
    om = math.acos(dot)
    return om * om if dot > 0 else (math.pi - om) ** 2


@st.composite
def spec_pot(draw, tier):
    sysd = draw(gen.system(4, 10, cell=False))
    ncv = draw(st.sampled_from([1, 1, 2]))
    cvs = []
    for i in range(ncv):
        if draw(st.integers(0, 2)) == 0:
            cv = draw(gen.nonscalar_colvar(sysd, "cv%d" % (i + 1)))
        else:
            cv = draw(gen.scalar_colvar(sysd, "cv%d" % (i + 1), allow_scripted=False))
        cv["kv"] = {"width": fmt(draw(st.sampled_from([1.0, 0.5, 2.0, 0.25])))}
        cvs.append(cv)
    kind = draw(st.sampled_from(["harmonic", "harmonic", "harmonicWalls", "linear"]))
    if kind == "harmonicWalls" and not any(c["vtype"] == SCALAR for c in cvs):
        kind = "harmonic"
    mk = {"harmonic": biases.harmonic, "linear": biases.linear, "harmonicWalls": biases.harmonic_walls}[kind]
    b = draw(mk(cvs, name="b1"))
    if b is None:
        b = draw(biases.harmonic(cvs, name="b1"))
    return {"sys": sysd, "cvs": cvs, "bias": b}


def check_pot(spec, ctx):
    sysd, cvs, b = spec["sys"], spec["cvs"], spec["bias"]
    head = gen.case_header(sysd)
    igs = []
    cfg_cv = "\n".join(gen.render_colvar(cv, igs) for cv in cvs)
    pre = ""
    if igs:
        path = os.path.join(ctx["workdir"], "ig_%d.ndx" % os.getpid())
        open(path, "w").write(gen.render_index_file(igs))
        pre = "indexFile %s\n" % path
    r1 = run_case("\n".join(head + [gen.config_block(pre + cfg_cv), gen.pos_line(sysd["pos"]), "step"]) + "\n")
    if r1.crashed or r1.of("config")[0]["rc"] != 0:
        return Outcome(False, msg="variables rejected/crash: %s %s" % (r1.of("config")[:1], r1.stderr[-300:]), sig="gen_invalid")
    values = [c["x"] for c in r1.of("step")[0]["cv"]]
    if any(not math.isfinite(v) for val in values for v in val):
        return Outcome(discard=True)
    cfg = pre + cfg_cv + "\n" + biases.render_bias(b, cvs, values)
    case = "\n".join(head + [gen.config_block(cfg), gen.pos_line(sysd["pos"]), "step"]) + "\n"
    r = run_case(case)
    if r.crashed:
        return Outcome(False, msg="crash %s" % r.stderr[-500:], sig="crash", case_text=case)
    if r.of("config")[0]["rc"] != 0:
        return Outcome(False, msg="configuration rejected: %s" % r.of("config")[0]["errs"], sig="gen_invalid", case_text=case)
    s = r.of("step")[0]
    E = s["bias"][0]["E"]
    x = [c["x"] for c in s["cv"]]
    widths = [float(cv["kv"]["width"]) for cv in cvs]
    exp = 0.0
    side = set()
    t = b["type"]
    if t in ("harmonic", "linear"):
        for i, off in zip(b["cvs"], b["offs"]):
            c = biases.shifted_center(cvs[i], values[i], off)
            # the configuration carries repr() of the centre: same double
            if t == "harmonic":
                exp += 0.5 * b["k"] / widths[i] ** 2 * dist2(cvs[i], x[i], c)
            else:
                exp += b["k"] / widths[i] * sum(a - bb for a, bb in zip(x[i], c))
    else:
        for j, i in enumerate(b["cvs"]):
            cv = cvs[i]
            xv = x[i][0]
            lo = values[i][0] + b["lo"][j] if b["sides"] in ("lower", "both") else None
            up = values[i][0] + b["up"][j] if b["sides"] in ("upper", "both") else None
            P = cv.get("periodic")

            def sd(a, c):
                d = a - c
                if P:
                    d -= P * math.floor(d / P + 0.5)
                return d
            d = 0.0
            if P:
                dl, du = sd(xv, lo), sd(xv, up)
                if dl * dl < du * du:
                    if dl < 0:
                        d = dl
                elif du > 0:
                    d = du
            else:
                if lo is not None and xv - lo < 0:
                    d = xv - lo
                if up is not None and xv - up > 0:
                    d = xv - up
            k = b["kup"] if d > 0 else b["klo"]
            if d != 0:
                side.add("upper" if d > 0 else "lower")
            exp += 0.5 * k / widths[i] ** 2 * d * d
    tol = 1e-10 * max(1.0, abs(exp))
    types = ",".join(sorted(cvs[i]["vtype"] + ("P" if cvs[i].get("periodic") else "") for i in b["cvs"]))
    cls = (t, types) + tuple(sorted(side))
    if abs(E - exp) > tol:
        return Outcome(False, msg="%s energy %r, closed form %r (value types %s)" % (t, E, exp, types), sig="potential_" + t,
                       case_text=case, cls=cls)
    return Outcome(True, nontrivial=abs(exp) > 1e-9, cls=cls, strata=["bias:" + t] + ["vt:" + v for v in types.split(",")] +
                   ["wall:" + s_ for s_ in side], case_text=case)


# ------------------------------------------------------------------------------------------------ ABMD

@st.composite
def spec_abmd(draw, tier):
    T = draw(st.integers(5, 30))
    x = [rnd(draw(fl(-3, 3)), 3)]
    for _ in range(T - 1):
        x.append(rnd(x[-1] + draw(fl(-1.0, 1.2)), 3))
    return {"x": x, "k": rnd(draw(fl(0.2, 10)), 3), "stop": rnd(draw(fl(-2, 6)), 2), "decreasing": draw(st.booleans())}


def check_abmd(spec, ctx):
    xs = spec["x"] if not spec["decreasing"] else [-v for v in spec["x"]]
    stop = spec["stop"] if not spec["decreasing"] else -spec["stop"]
    cfg = cvz.zvar("z0", 1, -100, 100, 1.0) + "\nabmd {\n  name ab\n  colvars z0\n  forceConstant %s\n  stoppingValue %s\n%s}\n" % (
        fmt(spec["k"]), fmt(stop), "  decreasing on\n" if spec["decreasing"] else "")
    L = cvz.header(2, 0) + ["config <<END\n%s\nEND" % cfg]
    for v in xs:
        L += [cvz.pos_line_z([v], 2), "step"]
    case = "\n".join(L) + "\n"
    r = run_case(case)
    if r.crashed or r.of("config")[0]["rc"] != 0:
        return Outcome(False, msg="crash/rejected %s %s" % (r.of("config")[:1], r.stderr[-300:]), sig="gen_invalid", case_text=case)
    # documented: ref_t = min(max_{s<=t} xi_s, stop) (increasing case), V = k/2 (xi - ref)^2 if xi < ref else 0
    sign = -1.0 if spec["decreasing"] else 1.0
    hw = None
    active = crossed = 0
    for t, (s, v) in enumerate(zip(r.of("step"), xs)):
        u = sign * v
        ustop = sign * stop
        hw = u if hw is None else max(hw, u)
        ref = min(hw, ustop) if hw > ustop else hw
        if hw > ustop:
            crossed += 1
        E = 0.5 * spec["k"] * (u - ref) ** 2 if u < ref else 0.0
        if E > 0:
            active += 1
        got = s["bias"][0]["E"]
        if abs(got - E) > 1e-10 * max(1.0, E):
            return Outcome(False, msg="step %d: ABMD energy %r, documented ratchet %r (value %r, reference %r, stop %r)" %
                           (t, got, E, v, sign * ref, stop), sig="abmd", case_text=case)
        f = s["cv"][0]["f"][0]
        fexp = -sign * spec["k"] * (u - ref) if u < ref else 0.0
        if abs(f - fexp) > 1e-10 * max(1.0, abs(fexp)):
            return Outcome(False, msg="step %d: ABMD force %r, documented %r" % (t, f, fexp), sig="abmd_force", case_text=case)
    cls = ("dec" if spec["decreasing"] else "inc", "crossed" if crossed else "below")
    return Outcome(True, nontrivial=active >= 1, cls=cls, strata=list(cls), case_text=case)


# ------------------------------------------------------------------------------------------------ schedules

@st.composite
def spec_sched(draw, tier, with_cut=False):
    kind = draw(st.sampled_from(["centers", "centers_staged", "k", "k_staged", "k_sched", "k_decoupling", "walls_k"]))
    N = draw(st.integers(2, 7))
    nst = draw(st.integers(2, 4))
    T = draw(st.integers(N + 2, min(40, N * (nst + 1) + 6)))
    w = draw(st.sampled_from([1.0, 0.5, 2.0]))
    x = [rnd(draw(fl(-3, 3)), 3) for _ in range(T + 1)]
    spec = {"kind": kind, "N": N, "nst": nst, "T": T, "w": w, "x": x,
            "c0": rnd(draw(fl(-2, 2)), 2), "c1": rnd(draw(fl(-2, 4)), 2), "k0": rnd(draw(fl(0.5, 5)), 2), "k1": rnd(draw(fl(0.5, 9)), 2),
            "exp": draw(st.sampled_from([1.0, 1.0, 2.0, 3.0])), "equil": draw(st.integers(0, N - 1)),
            "sched": sorted([rnd(draw(fl(0, 1)), 2) for _ in range(nst + 1)]), "work": draw(st.booleans()),
            "first": draw(st.sampled_from([0, 0, 3, 10]))}
    # a changing force constant on a periodic variable: every distance in the potential, in dU/dk (accumulated work, dA/dlambda)
    # is the minimum-image one
    spec["per"] = draw(st.sampled_from([0.0, 0.0, 4.0, 5.0])) if kind in ("k", "k_staged", "k_sched", "k_decoupling") else 0.0
    # stepZeroData makes a bias collect data also at the first step of a run; a restraint schedule must not depend on it
    spec["szd"] = draw(st.integers(0, 3)) == 0
    if with_cut:
        spec["cut"] = draw(st.integers(1, T - 1))
        spec["binary"] = draw(st.booleans())
    return spec


def pdist(spec, x, c):
    d = x - c
    P = spec.get("per") or 0.0
    if P:
        d -= P * math.floor(d / P + 0.5)
    return d


def sched_config(spec):
    k = spec["kind"]
    cv = cvz.zvar("z0", 1, -100, 100, spec["w"])
    if spec.get("per"):
        cv = cvz.zvar("z0", 1, -0.5 * spec["per"], 0.5 * spec["per"], spec["w"], periodic=True)
    if k == "walls_k":
        b = ["harmonicWalls {", "  name r", "  colvars z0", "  lowerWalls %s" % fmt(spec["c0"] - 0.5), "  upperWalls %s" % fmt(spec["c0"] + 0.5),
             "  forceConstant %s" % fmt(spec["k0"]), "  targetForceConstant %s" % fmt(spec["k1"]), "  targetNumSteps %d" % spec["N"]]
        if spec["exp"] != 1.0:
            b.append("  lambdaExponent %s" % fmt(spec["exp"]))
    else:
        b = ["harmonic {", "  name r", "  colvars z0", "  centers %s" % fmt(spec["c0"]), "  forceConstant %s" % fmt(spec["k0"]),
             "  targetNumSteps %d" % spec["N"]]
        if k.startswith("centers"):
            b.append("  targetCenters %s" % fmt(spec["c1"]))
            if k == "centers_staged":
                b.append("  targetNumStages %d" % spec["nst"])
        elif k == "k_decoupling":
            b.append("  decoupling on")
        else:
            b.append("  targetForceConstant %s" % fmt(spec["k1"]))
        if k == "k_staged":
            b.append("  targetNumStages %d" % spec["nst"])
            if spec["equil"]:
                b.append("  targetEquilSteps %d" % spec["equil"])
        if k == "k_sched":
            b.append("  lambdaSchedule " + " ".join(fmt(v) for v in spec["sched"]))
            if spec["equil"]:
                b.append("  targetEquilSteps %d" % spec["equil"])
        if k in ("k", "k_staged", "k_sched", "k_decoupling") and spec["exp"] != 1.0:
            b.append("  lambdaExponent %s" % fmt(spec["exp"]))
    staged = k in ("centers_staged", "k_staged", "k_sched")
    if spec.get("szd"):
        b.append("  stepZeroData on")
    if spec["work"] and not staged:
        b.append("  outputAccumulatedWork on")
    b.append("}")
    return cv + "\n" + "\n".join(b) + "\n", staged


def expected_schedule(spec, t):
    """(centre, force constant) prescribed at absolute step t (first step = spec['first'])"""
    k, N, n = spec["kind"], spec["N"], spec["nst"]
    s = t - spec["first"]
    c, fk = spec["c0"], spec["k0"]
    if k == "centers":
        lam = min(1.0, s / float(N))
        c = (1 - lam) * spec["c0"] + lam * spec["c1"]
    elif k == "centers_staged":
        # stage j (centre at j/n of the way) from step j*N+1 to (j+1)*N, the target from n*N+1 on
        j = 0 if s <= 0 else min(n, (s - 1) // N)
        lam = j / float(n)
        c = (1 - lam) * spec["c0"] + lam * spec["c1"]
    elif k in ("k", "walls_k", "k_decoupling"):
        lam = min(1.0, s / float(N))
        k0, k1 = spec["k0"], spec["k1"]
        if k == "k_decoupling":
            lam = 1.0 - lam
            k0, k1 = 0.0, spec["k0"]
        fk = k0 + (k1 - k0) * lam ** spec["exp"]
    elif k in ("k_staged", "k_sched"):
        m = n if k == "k_staged" else len(spec["sched"]) - 1
        # stage j lasts N steps: steps (j-1)*N+1 .. j*N use stage j-1's value until the switch at j*N
        j = min(m, s // N) if s >= 0 else 0
        lam = (j / float(m)) if k == "k_staged" else spec["sched"][j]
        fk = spec["k0"] + (spec["k1"] - spec["k0"]) * lam ** spec["exp"]
    return c, fk


def run_sched(spec, cut=None, binary=False, workdir=None):
    cfg, staged = sched_config(spec)
    first = spec["first"]

    def seg(t0, t1, load=None):
        L = cvz.header(2, 0) + ["keeplog 1"]
        if binary:
            L.append("binary 1")
        L.append("setstep %d" % first)
        L.append("config <<END\n%s\nEND" % cfg)
        if load:
            L.append(load)
        for t in range(t0, t1 + 1):
            L += [cvz.pos_line_z([spec["x"][t - first]], 2), "step"]
        return L
    T = spec["T"]
    if cut is None:
        case = "\n".join(seg(first, first + T) + ["savestr", "dumplog dA/dLambda"]) + "\n"
        r = run_case(case)
        return [r], case
    path = os.path.join(workdir, "seg_%d" % os.getpid())
    c1 = "\n".join(seg(first, first + cut) + ["save %s" % pct(path + ".colvars.state")]) + "\n"
    r1 = run_case(c1)
    c2 = "\n".join(seg(first + cut, first + T, load="load %s" % pct(path)) + ["savestr"]) + "\n"
    r2 = run_case(c2)
    return [r1, r2], c1 + "\n# ---- second process ----\n" + c2


def recover(spec, s, x):
    """(centre, k) from the energy and the force of a harmonic restraint at one step"""
    E = s["bias"][0]["E"]
    f = s["cv"][0]["f"][0]
    return E, f


def check_sched(spec, ctx):
    rs, case = run_sched(spec)
    r = rs[0]
    if r.crashed:
        return Outcome(False, msg="crash %s" % r.stderr[-500:], sig="crash", case_text=case)
    if r.of("config")[0]["rc"] != 0:
        return Outcome(False, msg="configuration rejected: %s" % r.of("config")[0]["errs"], sig="gen_invalid", case_text=case)
    steps = r.of("step")
    w = spec["w"]
    first = spec["first"]
    kind = spec["kind"]
    work = 0.0
    prev_c = prev_k = None
    reached = False
    stages_seen = set()
    for s in steps:
        t = s["it"]
        x = spec["x"][t - first]
        c, fk = expected_schedule(spec, t)
        if kind == "walls_k":
            lo, up = spec["c0"] - 0.5, spec["c0"] + 0.5
            d = (x - lo) if x < lo else ((x - up) if x > up else 0.0)
        else:
            d = pdist(spec, x, c)
        E = 0.5 * fk / (w * w) * d * d
        f = -fk / (w * w) * d
        gE, gf = s["bias"][0]["E"], s["cv"][0]["f"][0]
        if abs(gE - E) > 1e-9 * max(1.0, abs(E)) or abs(gf - f) > 1e-9 * max(1.0, abs(f)):
            # report in terms of centre / force constant
            msg = "step %d: energy %r force %r; the schedule prescribes centre %r and k %r, i.e. energy %r force %r" % (t, gE, gf, c, fk, E, f)
            return Outcome(False, msg=msg + " [%s N=%d stages=%d first=%d]" % (kind, spec["N"], spec["nst"], first),
                           sig="schedule_" + kind, case_text=case)
        # work increments (only while the parameter changes, and not at the first step of the run)
        if prev_c is not None and t - first <= spec["N"]:
            if kind == "centers":
                work += f * (c - prev_c)
            elif kind in ("k", "walls_k", "k_decoupling"):
                work += (0.5 / (w * w) * d * d) * (fk - prev_k)
        prev_c, prev_k = c, fk
        stages_seen.add((round(c, 9), round(fk, 9)))
        if (kind.startswith("centers") and abs(c - spec["c1"]) < 1e-12) or (kind.startswith("k") and t - first >= spec["N"]):
            reached = True
    state = r.of("savestr")[0]["state"]
    body = cvz.find_block(state, "restraint") or cvz.find_block(state, "harmonicWalls") or cvz.find_block(state, "harmonic")
    cfgd = cvz.block_config(body) if body else {}
    _, staged = sched_config(spec)
    if spec["work"] and not staged:
        if "accumulatedWork" not in cfgd:
            return Outcome(False, msg="accumulatedWork missing from the state", sig="work_missing", case_text=case)
        gw = float(cfgd["accumulatedWork"])
        if abs(gw - work) > 1e-8 * max(1.0, abs(work)):
            return Outcome(False, msg="accumulated work %r, sum of force x increment over the steps %r [%s]" % (gw, work, kind),
                           sig="work_" + kind, case_text=case)
    # staged TI: each "dA/dLambda" log line is the mean of dU/dlambda over the post-equilibration steps of its stage
    ti_checked = 0
    if kind in ("k_staged", "k_sched"):
        m = spec["nst"] if kind == "k_staged" else len(spec["sched"]) - 1
        logs = r.of("log")
        lines = logs[0]["lines"] if logs else []
        N, eq = spec["N"], spec["equil"]
        byit = {s["it"]: s for s in steps}
        for j, line in enumerate(lines):
            mm = re.search(r"Lambda=\s*([-+0-9.eE]+)\s+dA/dLambda=\s*([-+0-9.eE]+)", line)
            if not mm or j > m:
                continue
            lam_rep, dadl = float(mm.group(1)), float(mm.group(2))
            lam = (j / float(m)) if kind == "k_staged" else spec["sched"][j]
            # stage j spans the N steps first + j*N + 1 .. first + (j+1)*N; the manual does not fix whether the
            # equilibration window is counted from the step at which k changed or from the next one: accept both
            def mean_over(ts):
                ts = [t for t in ts if t in byit]
                if len(ts) != N - eq or not ts:
                    return None
                vals = []
                for t in ts:
                    x = spec["x"][t - first]
                    dUdk = 0.5 / (w * w) * pdist(spec, x, spec["c0"]) ** 2
                    dl = spec["exp"] * (lam ** (spec["exp"] - 1.0)) if not (lam == 0.0 and spec["exp"] == 1.0) else 1.0
                    vals.append(dl * (spec["k1"] - spec["k0"]) * dUdk)
                return sum(vals) / len(vals)
            wa = mean_over([first + j * N + i for i in range(eq + 1, N + 1)])
            wb = mean_over([first + j * N + i for i in range(eq, N)]) if eq >= 1 else wa
            if wa is None:
                continue
            mean = wa if (wb is None or abs(dadl - wa) <= abs(dadl - wb)) else wb
            vals = [0] * (N - eq)
            ti_checked += 1
            if abs(lam_rep - lam) > 1e-6 * max(1.0, abs(lam)) or abs(dadl - mean) > 2e-5 * max(1.0, abs(mean)):
                return Outcome(False, msg="stage %d: log reports Lambda=%r dA/dLambda=%r; mean of dU/dlambda over the %d "
                               "post-equilibration steps of the stage is %r at lambda=%r [N=%d equil=%d exp=%r]" %
                               (j, lam_rep, dadl, len(vals), mean, lam, N, eq, spec["exp"]), sig="ti_mean", case_text=case)
    cls = (kind, "work" if spec["work"] and not staged else "", "first%d" % first)
    nontrivial = (len(stages_seen) >= 3) or reached
    return Outcome(True, nontrivial=nontrivial, cls=cls, strata=[kind] + (["reached_target"] if reached else []) +
                   (["work"] if spec["work"] and not staged else []) + (["ti_stage_checked"] if ti_checked else []) +
                   (["k_periodic"] if spec.get("per") else []) +
                   (["k_periodic_across"] if spec.get("per") and any(abs(xx - spec["c0"]) > 0.5 * spec["per"] for xx in spec["x"]) else []),
                   case_text=case)


# ------------------------------------------------------------------------------------------------ segmentation

def check_segments(spec, ctx):
    rs_u, case_u = run_sched(spec)
    rs_c, case_c = run_sched(spec, cut=spec["cut"], binary=spec["binary"], workdir=ctx["workdir"])
    for r in rs_u + rs_c:
        if r.crashed:
            return Outcome(False, msg="crash %s" % r.stderr[-400:], sig="crash", case_text=case_c)
        if r.of("config")[0]["rc"] != 0:
            return Outcome(False, msg="configuration rejected: %s" % r.of("config")[0]["errs"], sig="gen_invalid", case_text=case_c)
    ld = rs_c[1].of("load")[0]
    if ld["rc"] != 0:
        return Outcome(False, msg="state written by the first segment rejected: %s" % ld["errs"], sig="load_error", case_text=case_c)
    u = {s["it"]: s for s in rs_u[0].of("step")}
    first = spec["first"]
    K = first + spec["cut"]
    tol = 1e-12 if spec["binary"] else 1e-9
    for s in rs_c[1].of("step"):
        t = s["it"]
        if t <= K:
            continue       # the repeated step K is step 0 of the new run
        a = u[t]
        for name, x, y in (("energy", s["bias"][0]["E"], a["bias"][0]["E"]), ("force", s["cv"][0]["f"][0], a["cv"][0]["f"][0])):
            if abs(x - y) > tol * max(1.0, abs(y)):
                c, fk = expected_schedule(spec, t)
                return Outcome(False, msg="step %d: %s %r in the run cut at step %d, %r in the uncut run (schedule: centre %r k %r) [%s N=%d stages=%d %s]" %
                               (t, name, x, K, y, c, fk, spec["kind"], spec["N"], spec["nst"], "binary" if spec["binary"] else "text"),
                               sig="segment_" + spec["kind"], case_text=case_c)
    # final states agree
    su, sc = rs_u[0].of("savestr")[0]["state"], rs_c[1].of("savestr")[0]["state"]
    def fb(st_):
        return cvz.find_block(st_, "restraint") or cvz.find_block(st_, "harmonicWalls") or cvz.find_block(st_, "harmonic") or ""
    cu, cc = cvz.block_config(fb(su)), cvz.block_config(fb(sc))
    for key in cu:
        if key in ("step", "name", "firstStep", "stage"):
            if cu[key] != cc.get(key):
                return Outcome(False, msg="final state differs in %s: %r (uncut) vs %r (cut at %d)" % (key, cu[key], cc.get(key), K),
                               sig="segment_state", case_text=case_c)
        else:
            try:
                a, b = [float(v) for v in cu[key].split()], [float(v) for v in cc.get(key, "").split()]
            except ValueError:
                continue
            if len(a) != len(b) or any(abs(p - q) > 1e-8 * max(1.0, abs(p)) for p, q in zip(a, b)):
                return Outcome(False, msg="final state differs in %s: %r (uncut) vs %r (cut at %d)" % (key, cu[key], cc.get(key), K),
                               sig="segment_state_" + key, case_text=case_c)
    N = spec["N"]
    inside = (spec["cut"] % N) not in (0, 1)
    return Outcome(True, nontrivial=True, cls=(spec["kind"], "bin" if spec["binary"] else "txt", "inside" if inside else "boundary"),
                   strata=[spec["kind"], "cut_inside_stage" if inside else "cut_on_boundary"], case_text=case_c)


def view(spec):
    d = {k: v for k, v in spec.items() if k not in ("sys", "cvs", "x")}
    if "cvs" in spec:
        d["variables"] = [gen.render_colvar(cv) for cv in spec["cvs"]]
    if "x" in spec:
        d["x_head"] = spec["x"][:5]
    return d


PARTS = {
    "potentials": {"strategy": spec_pot, "check": check_pot, "examples": {"quick": 4800, "thorough": 30000}, "sample": view},
    "abmd": {"strategy": spec_abmd, "check": check_abmd, "examples": {"quick": 2400, "thorough": 10000}, "sample": view},
    "schedule": {"strategy": spec_sched, "check": check_sched, "examples": {"quick": 4800, "thorough": 30000}, "sample": view},
    "segments": {"strategy": lambda tier: spec_sched(tier, with_cut=True), "check": check_segments,
                 "examples": {"quick": 2400, "thorough": 15000}, "sample": view},
}


# ------------------------------------------------------------------------------------------------ walls on a periodic variable

@st.composite
def spec_pwalls(draw, tier):
    P = draw(st.sampled_from([2.0, 4.0, 1.25]))
    lo = rnd(draw(fl(-0.5, 0.5)) * P, 3)
    gap = rnd(draw(fl(0.05, 0.95)) * P, 3)
    T = draw(st.integers(2, 8))
    xs = [rnd(draw(fl(-1.5, 1.5)) * P, 3) for _ in range(T)]
    return {"P": P, "lo": lo, "up": rnd(lo + gap, 3), "xs": xs, "klo": rnd(draw(fl(0.2, 9)), 2), "kup": rnd(draw(fl(0.2, 9)), 2),
            "width": draw(st.sampled_from([1.0, 0.5, 0.25])), "center": rnd(draw(fl(-1, 1)) * P, 2)}


def check_pwalls(spec, ctx):
    P, w = spec["P"], spec["width"]
    # the variable lives on [center-P/2, center+P/2)
    lb = spec["center"] - 0.5 * P
    cfg = cvz.zvar("z0", 1, lb, lb + P, w, periodic=True)
    cfg += "\nharmonicWalls {\n  name r\n  colvars z0\n  lowerWalls %s\n  upperWalls %s\n  lowerWallConstant %s\n  upperWallConstant %s\n}\n" % (
        fmt(spec["lo"]), fmt(spec["up"]), fmt(spec["klo"]), fmt(spec["kup"]))
    L = cvz.header(2, 0) + ["config <<END\n%s\nEND" % cfg]
    for x in spec["xs"]:
        L += [cvz.pos_line_z([x], 2), "step"]
    case = "\n".join(L) + "\n"
    r = run_case(case)
    if r.crashed or r.of("config")[0]["rc"] != 0:
        return Outcome(False, msg="crash/rejected: %s %s" % (r.stderr[-300:], r.of("config")[:1]), sig="gen_invalid", case_text=case)

    def sd(a, c):
        d = a - c
        return d - P * math.floor(d / P + 0.5)
    across = 0
    active = set()
    for s, x in zip(r.of("step"), spec["xs"]):
        if s["errbits"]:
            return Outcome(False, msg="step error %s" % s["errs"], sig="step_error", case_text=case)
        dl, du = sd(x, spec["lo"]), sd(x, spec["up"])
        d = 0.0
        if dl * dl < du * du:
            if dl < 0:
                d = dl
        elif du > 0:
            d = du
        k = spec["kup"] if d > 0 else spec["klo"]
        expE = 0.5 * k / (w * w) * d * d
        expF = -k / (w * w) * d
        if d != 0.0:
            active.add("upper" if d > 0 else "lower")
            wall = spec["up"] if d > 0 else spec["lo"]
            if abs(x - wall) > 0.5 * P:
                across += 1
        E, f = s["bias"][0]["E"], s["cv"][0]["f"][0]
        if abs(E - expE) > 1e-10 * max(1.0, abs(expE)) or abs(f - expF) > 1e-10 * max(1.0, abs(expF)):
            return Outcome(False, msg="periodic variable (period %r) at %r, walls %r / %r (constants %r / %r, width %r): energy %r force %r; the nearer wall "
                           "by minimum-image distance gives energy %r force %r" % (P, x, spec["lo"], spec["up"], spec["klo"], spec["kup"], w, E, f, expE, expF),
                           sig="periodic_walls", case_text=case)
    return Outcome(True, nontrivial=len(active) >= 1 and across >= 1, cls=("pwalls",) + tuple(sorted(active)) + (("across",) if across else ()),
                   strata=["pwalls"] + (["pwalls_across"] if across else []) + ["pwall:" + a for a in active], case_text=case)


PARTS["periodic_walls"] = {"strategy": spec_pwalls, "check": check_pwalls, "examples": {"quick": 3600, "thorough": 20000}, "sample": lambda s_: s_}
REQUIRED_STRATA = {"all": ["periodic_walls:pwalls_across", "periodic_walls:pwall:upper", "periodic_walls:pwall:lower", "schedule:k_periodic_across"]}
