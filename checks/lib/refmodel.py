"""Independent numpy implementation of the documented definition of each component (manual formulas).
Deliberately uses different algorithms from the library where there is a choice (Kabsch/SVD instead of the
quaternion eigenproblem, explicit minimum image)."""
import math
import numpy as np


class Sys:
    def __init__(self, sysd, pos=None):
        self.n = sysd["natoms"]
        self.m = np.array(sysd["masses"], float)
        self.q = np.array(sysd["charges"], float)
        self.x = np.array(sysd["pos"] if pos is None else pos, float)
        self.cell = np.array(sysd["cell"], float) if sysd.get("cell") else None

    def mimg(self, d):
        if self.cell is None:
            return d
        return d - self.cell * np.floor(d / self.cell + 0.5)


def kabsch(P, Q):
    """proper rotation R minimising sum |R p_i - q_i|^2 (P, Q centred, Nx3)"""
    H = P.T @ Q
    U, S, Vt = np.linalg.svd(H)
    d = np.sign(np.linalg.det(Vt.T @ U.T))
    D = np.diag([1.0, 1.0, d])
    R = Vt.T @ D @ U.T
    # gap between the best and the second-best solution (conditioning)
    s = S.copy()
    s[2] *= d
    return R, s


def mat_to_quat(R):
    t = np.trace(R)
    if t > 0:
        s = math.sqrt(t + 1.0) * 2
        q = [0.25 * s, (R[2, 1] - R[1, 2]) / s, (R[0, 2] - R[2, 0]) / s, (R[1, 0] - R[0, 1]) / s]
    elif R[0, 0] > R[1, 1] and R[0, 0] > R[2, 2]:
        s = math.sqrt(1.0 + R[0, 0] - R[1, 1] - R[2, 2]) * 2
        q = [(R[2, 1] - R[1, 2]) / s, 0.25 * s, (R[0, 1] + R[1, 0]) / s, (R[0, 2] + R[2, 0]) / s]
    elif R[1, 1] > R[2, 2]:
        s = math.sqrt(1.0 + R[1, 1] - R[0, 0] - R[2, 2]) * 2
        q = [(R[0, 2] - R[2, 0]) / s, (R[0, 1] + R[1, 0]) / s, 0.25 * s, (R[1, 2] + R[2, 1]) / s]
    else:
        s = math.sqrt(1.0 + R[2, 2] - R[0, 0] - R[1, 1]) * 2
        q = [(R[1, 0] - R[0, 1]) / s, (R[0, 2] + R[2, 0]) / s, (R[1, 2] + R[2, 1]) / s, 0.25 * s]
    q = np.array(q)
    return q / np.linalg.norm(q)


class Singular(Exception):
    pass


def group_positions(S, g):
    """positions (N x 3), masses, charges of a group after its documented fitting transformation"""
    if "dummy" in g:
        return np.array([g["dummy"]], float), np.array([1.0]), np.array([0.0])
    idx = [a - 1 for a in g["atoms"]]
    X = S.x[idx].copy()
    m = S.m[idx]
    q = S.q[idx]
    if g.get("center") or g.get("rotate"):
        fidx = [a - 1 for a in g["fitgroup"]] if "fitgroup" in g else idx
        F = S.x[fidx]
        ref = np.array(g["refpos"], float)
        fcog = F.mean(axis=0)
        rcog = ref.mean(axis=0)
        X = X - fcog
        if g.get("rotate"):
            R, s = kabsch(F - fcog, ref - rcog)
            if s[1] + s[2] < 1e-3 * s[0]:
                raise Singular("degenerate fit")
            X = X @ R.T
        if not g.get("center_origin"):
            X = X + rcog
    return X, m, q


def com(S, g):
    X, m, q = group_positions(S, g)
    return (X * m[:, None]).sum(axis=0) / m.sum()


def switching(l2, en, ed):
    xn = l2 ** (en // 2)
    xd = l2 ** (ed // 2)
    return (1.0 - xn) / (1.0 - xd)


def angle_deg(a, b):
    c = float(np.dot(a, b) / (np.linalg.norm(a) * np.linalg.norm(b)))
    return math.degrees(math.acos(max(-1.0, min(1.0, c))))


def parse_vec(text):
    return np.array([float(t) for t in text.strip("() ").split(",")])


def rotation_ref_to_current(S, c):
    g = dict(c["groups"])["atoms"]
    X, m, q = group_positions(S, g)
    ref = np.array(c["refpos"], float)
    Xc = X - X.mean(axis=0)
    Rc = ref - ref.mean(axis=0)
    R, s = kabsch(Rc, Xc)   # rotates reference onto current
    if s[1] + s[2] < 1e-3 * s[0]:
        raise Singular("degenerate rotation")
    return R, mat_to_quat(R), Xc, Rc


def component_value(S, c):
    """value as a list of floats"""
    t = c["type"]
    G = dict(c["groups"])
    kv = c["kv"]
    if t == "distance":
        d = S.mimg(com(S, G["group2"]) - com(S, G["group1"]))
        return [float(np.linalg.norm(d))]
    if t in ("distanceVec", "distanceDir"):
        d = S.mimg(com(S, G["group2"]) - com(S, G["group1"]))
        if t == "distanceDir":
            d = d / np.linalg.norm(d)
        return [float(v) for v in d]
    if t in ("distanceZ", "distanceXY"):
        M, r1 = com(S, G["main"]), com(S, G["ref"])
        if "ref2" in G:
            r2 = com(S, G["ref2"])
            a = S.mimg(r2 - r1)
            axis = a / np.linalg.norm(a)
            if t == "distanceZ":
                d = S.mimg(M - (r1 + 0.5 * a))
            else:
                d = S.mimg(M - r1)
        else:
            axis = parse_vec(kv["axis"]) if "axis" in kv else np.array([0.0, 0.0, 1.0])
            axis = axis / np.linalg.norm(axis)
            d = S.mimg(M - r1)
        z = float(np.dot(d, axis))
        if t == "distanceZ":
            return [z]
        return [float(np.linalg.norm(d - z * axis))]
    if t == "distanceInv":
        X1, _, _ = group_positions(S, G["group1"])
        X2, _, _ = group_positions(S, G["group2"])
        n = int(kv["exponent"])
        s = 0.0
        for a in X1:
            for b in X2:
                s += (1.0 / np.linalg.norm(S.mimg(b - a))) ** n
        s /= (len(X1) * len(X2))
        return [float(s ** (-1.0 / n))]
    if t == "distancePairs":
        X1, _, _ = group_positions(S, G["group1"])
        X2, _, _ = group_positions(S, G["group2"])
        return [float(np.linalg.norm(S.mimg(b - a))) for a in X1 for b in X2]
    if t == "cartesian":
        X, _, _ = group_positions(S, G["atoms"])
        return [float(v) for v in X.reshape(-1)]
    if t == "angle":
        c1, c2, c3 = com(S, G["group1"]), com(S, G["group2"]), com(S, G["group3"])
        return [angle_deg(S.mimg(c1 - c2), S.mimg(c3 - c2))]
    if t == "dipoleAngle":
        X, m, q = group_positions(S, G["group1"])
        c1 = (X * m[:, None]).sum(axis=0) / m.sum()
        dip = (q[:, None] * (X - c1)).sum(axis=0)
        if np.linalg.norm(dip) < 1e-6:
            raise Singular("zero dipole")
        c2, c3 = com(S, G["group2"]), com(S, G["group3"])
        return [angle_deg(dip, S.mimg(c3 - c2))]
    if t == "dihedral":
        p = [com(S, G["group%d" % i]) for i in (1, 2, 3, 4)]
        b1, b2, b3 = S.mimg(p[1] - p[0]), S.mimg(p[2] - p[1]), S.mimg(p[3] - p[2])
        # IUPAC sign convention: looking from group2 to group3, positive if group4 is clockwise from group1
        n1, n2 = np.cross(b1, b2), np.cross(b2, b3)
        xx, yy = np.dot(n1, n2), np.linalg.norm(b2) * np.dot(b1, n2)
        return [math.degrees(math.atan2(yy, xx))]
    if t in ("polarTheta", "polarPhi"):
        r = com(S, G["atoms"])
        if t == "polarTheta":
            return [math.degrees(math.acos(r[2] / np.linalg.norm(r)))]
        return [math.degrees(math.atan2(r[1], r[0]))]
    if t in ("coordNum", "selfCoordNum", "groupCoord", "hBond"):
        en, ed = int(kv.get("expNumer", 6)), int(kv.get("expDenom", 12))
        if "cutoff3" in kv:
            r0 = parse_vec(kv["cutoff3"])
        else:
            r0 = np.array([float(kv.get("cutoff", 4.0))] * 3)
        tol = float(kv.get("tolerance", 0.0))

        def f(d):
            l2 = float(((d / r0) ** 2).sum())
            v = (switching(l2, en, ed) - tol) / (1.0 - tol)
            return max(v, 0.0)
        if t == "hBond":
            a, b = S.x[c["atoms"][0] - 1], S.x[c["atoms"][1] - 1]
            return [f(S.mimg(b - a))]
        if t == "groupCoord":
            return [f(S.mimg(com(S, G["group2"]) - com(S, G["group1"])))]
        X1, _, _ = group_positions(S, G["group1"])
        if t == "selfCoordNum":
            s = 0.0
            for i in range(len(X1)):
                for j in range(i + 1, len(X1)):
                    s += f(S.mimg(X1[j] - X1[i]))
            return [s]
        if kv.get("group2CenterOnly") == "on":
            c2 = com(S, G["group2"])
            return [sum(f(S.mimg(c2 - a)) for a in X1)]
        X2, _, _ = group_positions(S, G["group2"])
        return [sum(f(S.mimg(b - a)) for a in X1 for b in X2)]
    if t in ("gyration", "inertia", "inertiaZ"):
        X, _, _ = group_positions(S, G["atoms"])
        Xc = X - X.mean(axis=0)
        if t == "gyration":
            return [float(math.sqrt((Xc ** 2).sum() / len(X)))]
        if t == "inertia":
            return [float((Xc ** 2).sum())]
        axis = parse_vec(kv["axis"]) if "axis" in kv else np.array([0.0, 0.0, 1.0])
        axis = axis / np.linalg.norm(axis)
        return [float(((Xc @ axis) ** 2).sum())]
    if t == "dipoleMagnitude":
        X, m, q = group_positions(S, G["atoms"])
        c1 = (X * m[:, None]).sum(axis=0) / m.sum()
        return [float(np.linalg.norm((q[:, None] * (X - c1)).sum(axis=0)))]
    if t == "rmsd":
        X, _, _ = group_positions(S, G["atoms"])
        ref = np.array(c["refpos"], float)
        Xc, Rc = X - X.mean(axis=0), ref - ref.mean(axis=0)
        R, s = kabsch(Xc, Rc)
        if s[1] + s[2] < 1e-3 * s[0]:
            raise Singular("degenerate rotation")
        return [float(math.sqrt((((Xc @ R.T) - Rc) ** 2).sum() / len(X)))]
    if t == "eigenvector":
        X, _, _ = group_positions(S, G["atoms"])
        ref = np.array(c["refpos"], float)
        v = np.array(c["vector"], float)
        v = v - v.mean(axis=0)
        return [float(((X - ref) * v).sum())]
    if t in ("orientation", "orientationAngle", "orientationProj", "tilt", "spinAngle", "eulerPhi", "eulerTheta",
             "eulerPsi"):
        R, q, Xc, Rc = rotation_ref_to_current(S, c)
        if t == "orientation":
            if q[0] < 0:
                q = -q
            return [float(v) for v in q]
        if t == "orientationAngle":
            return [math.degrees(2.0 * math.acos(min(1.0, abs(q[0]))))]
        if t == "orientationProj":
            return [float(2 * q[0] ** 2 - 1)]
        axis = parse_vec(kv["axis"]) if "axis" in kv else np.array([0.0, 0.0, 1.0])
        axis = axis / np.linalg.norm(axis)
        if t == "tilt":
            return [float(np.dot(R @ axis, axis))]
        if t == "spinAngle":
            a = math.degrees(2.0 * math.atan2(float(np.dot(axis, q[1:])), q[0]))
            while a > 180.0:
                a -= 360.0
            while a < -180.0:
                a += 360.0
            return [a]
        q0, q1, q2, q3 = q
        if t == "eulerPhi":
            return [math.degrees(math.atan2(2 * (q0 * q1 + q2 * q3), 1 - 2 * (q1 * q1 + q2 * q2)))]
        if t == "eulerPsi":
            return [math.degrees(math.atan2(2 * (q0 * q3 + q1 * q2), 1 - 2 * (q2 * q2 + q3 * q3)))]
        return [math.degrees(math.asin(max(-1.0, min(1.0, 2 * (q0 * q2 - q3 * q1)))))]
    raise KeyError(t)


def colvar_value(S, cv):
    vals = [component_value(S, c["comp"]) for c in cv["comps"]]
    if cv.get("scripted"):
        xs = [v[0] for v in vals]
        if cv["scripted"] == "vsum":
            return [sum(xs)]
        if cv["scripted"] == "vprod":
            return [float(np.prod(xs))]
        return [sum(x * x for x in xs)]
    if cv["vtype"] == "scalar":
        tot = 0.0
        for c, v in zip(cv["comps"], vals):
            tot += c["coeff"] * (v[0] ** c["exp"])
        per = cv.get("periodic")
        if per:
            tot = tot - per * math.floor(tot / per + 0.5)
        return [tot]
    return [c * x for c, x in zip([cv["comps"][0]["coeff"]] * len(vals[0]), vals[0])]
