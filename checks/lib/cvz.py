"""Controlled scalar variables: xi_k = z coordinate of atom k (distanceZ against a dummy atom at the origin with
oneSiteTotalForce), so that the harness dictates the value and the total force of each variable exactly.
Also: parsers for saved text states."""
import math
import re
from hypothesis import strategies as st
from .gen import fl, rnd, fmt
from .core import fnum


def zvar(name, atom, lower, upper, width, periodic=False, extra=None, comp_extra=None):
    """configuration text of a controlled variable"""
    L = ["colvar {", "  name %s" % name, "  width %s" % fmt(width), "  lowerBoundary %s" % fmt(lower),
         "  upperBoundary %s" % fmt(upper)]
    for k, v in (extra or {}).items():
        L.append("  %s %s" % (k, v))
    L.append("  distanceZ {")
    if periodic:
        L.append("    period %s" % fmt(upper - lower))
        L.append("    wrapAround %s" % fmt(0.5 * (upper + lower)))
    for k, v in (comp_extra or {}).items():
        L.append("    %s %s" % (k, v))
    L += ["    main { atomNumbers %d }" % atom, "    ref { dummyAtom (0, 0, 0) }", "    oneSiteTotalForce on", "  }", "}"]
    return "\n".join(L)


@st.composite
def grid_def(draw, nbins_min=3, nbins_max=8):
    """(lower, width, nbins) with binary-exact numbers so that bin edges are exact"""
    width = draw(st.sampled_from([0.25, 0.5, 1.0, 2.0]))
    lower = draw(st.integers(-8, 8)) * 0.25
    n = draw(st.integers(nbins_min, nbins_max))
    return {"lower": lower, "width": width, "n": n, "upper": lower + n * width}


@st.composite
def value_in_grid(draw, g, outside_p=5, edge=False):
    """a value positioned relative to the grid: inside a bin (away from edges), or outside on either side"""
    k = draw(st.integers(0, outside_p))
    if k == 0:
        i = draw(st.sampled_from([-3, -2, -1, g["n"], g["n"] + 1, g["n"] + 2]))
    else:
        i = draw(st.integers(0, g["n"] - 1))
    frac = 0.0 if edge else rnd(draw(fl(0.06, 0.94)), 3)
    return g["lower"] + (i + frac) * g["width"]


def bin_of(g, x, periodic=False):
    """bin index or None; half-open bins [lower + i w, lower + (i+1) w)"""
    if periodic:
        P = g["n"] * g["width"]
        x = x - P * math.floor((x - g["lower"]) / P)
    i = math.floor((x - g["lower"]) / g["width"])
    if i < 0 or i >= g["n"]:
        return None
    return int(i)


def header(natoms, tf_mode, temperature=None, extra=()):
    L = ["natoms %d" % natoms, "tf_mode %d" % tf_mode]
    if temperature is not None:
        L.append("temperature %s" % fnum(temperature))
    L.extend(extra)
    return L


def pos_line_z(zs, natoms):
    """atom k (0-based) at (0.3*k, 0.1*k, z_k); atoms beyond len(zs) at generic fixed places"""
    out = []
    for a in range(natoms):
        z = zs[a] if a < len(zs) else 0.37 * a
        out += [0.3 * a, 0.1 * a, z]
    return "pos " + " ".join(fnum(c) for c in out)


def fsys_line_z(fz, natoms, fx=None):
    out = []
    for a in range(natoms):
        f = fz[a] if a < len(fz) else 0.0
        out += [(fx[a] if fx else 0.0), 0.0, f]
    return "fsys " + " ".join(fnum(c) for c in out)


# ----------------------------------------------------------------------------------------------
# state parsing

def split_blocks(state):
    """top-level blocks of a text state: list of (keyword, body text)"""
    out = []
    i, n = 0, len(state)
    while i < n:
        m = re.compile(r"\s*([A-Za-z_][\w]*)\s*\{").match(state, i)
        if not m:
            break
        depth, j = 1, m.end()
        while j < n and depth:
            if state[j] == "{":
                depth += 1
            elif state[j] == "}":
                depth -= 1
            j += 1
        out.append((m.group(1), state[m.end():j - 1]))
        i = j
    return out


def block_config(body):
    """key -> value text of the 'configuration { }' sub-block"""
    m = re.search(r"configuration\s*\{(.*?)\n\s*\}", body, re.S)
    d = {}
    if m:
        for line in m.group(1).strip().splitlines():
            parts = line.split(None, 1)
            if parts:
                d[parts[0]] = parts[1].strip() if len(parts) > 1 else ""
    return d


def named_array(body, key):
    """numbers following a bare keyword line (e.g. 'samples', 'gradient') up to the next keyword"""
    m = re.search(r"(?:^|\n)\s*%s\s*\n(.*?)(?=\n\s*[A-Za-z_]|\Z)" % re.escape(key), body, re.S)
    if not m:
        return None
    return [float(t) for t in m.group(1).split()]


def find_block(state, keyword, name=None):
    for k, body in split_blocks(state):
        if k == keyword:
            if name is None or block_config(body).get("name") == name:
                return body
    return None
