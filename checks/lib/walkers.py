"""Interactive walker processes for the multiple-walker checks (C14): each walker is a cvdrive process fed through a pipe,
so that the controller owns the interleaving of walker steps, exchanges, restarts and file faults."""
import json
import os
import select
import socket
import subprocess
from .core import BUILD, ENV_BASE


class WalkerDied(Exception):
    pass


class WalkerTimeout(WalkerDied):
    """no answer within the time limit: on a loaded machine this is inconclusive, not a verdict"""


class Walker:
    def __init__(self, idx, cwd, fds=(), variant="rel", timeout=60.0):
        self.idx = idx
        self.cwd = cwd
        self.timeout = timeout
        self.log = []       # every line sent (the replay text)
        env = dict(ENV_BASE)
        self.p = subprocess.Popen([os.path.join(BUILD, variant, "cvdrive"), "-", "-"], stdin=subprocess.PIPE, stdout=subprocess.PIPE,
                                  stderr=subprocess.PIPE, cwd=cwd, env=env, pass_fds=[f for f in fds if f >= 0])
        self.buf = b""
        self.ntok = 0

    def send(self, text):
        self.log.append(text)
        try:
            self.p.stdin.write((text + "\n").encode())
            self.p.stdin.flush()
        except (BrokenPipeError, OSError):
            raise WalkerDied("walker %d: pipe closed (rc=%s) stderr=%s" % (self.idx, self.p.poll(), self.stderr_tail()))

    def stderr_tail(self):
        try:
            if self.p.poll() is not None:
                return self.p.stderr.read().decode("utf-8", "replace")[-1500:]
        except Exception:
            pass
        return ""

    def _readline(self):
        while b"\n" not in self.buf:
            r, _, _ = select.select([self.p.stdout], [], [], self.timeout)
            if not r:
                raise WalkerTimeout("walker %d: no answer within %.0f s" % (self.idx, self.timeout))
            chunk = os.read(self.p.stdout.fileno(), 1 << 16)
            if not chunk:
                raise WalkerDied("walker %d: exited rc=%s stderr=%s" % (self.idx, self.p.wait(), self.stderr_tail()))
            self.buf += chunk
        line, self.buf = self.buf.split(b"\n", 1)
        return line

    def read_until(self, tag):
        """records up to and including the first one with t == tag"""
        out = []
        while True:
            rec = json.loads(self._readline())
            out.append(rec)
            if rec.get("t") == tag:
                return out

    def cmd(self, text, tag):
        self.send(text)
        return self.read_until(tag)[-1]

    def sync(self):
        self.ntok += 1
        self.send("echo k%d" % self.ntok)
        while True:
            rec = json.loads(self._readline())
            if rec.get("t") == "echo" and rec.get("token") == "k%d" % self.ntok:
                return

    def close(self, kill=False):
        try:
            if kill:
                self.p.kill()
            else:
                try:
                    self.p.stdin.close()
                except Exception:
                    pass
            self.p.wait(timeout=10)
        except Exception:
            try:
                self.p.kill()
                self.p.wait(timeout=5)
            except Exception:
                pass
        for f in (self.p.stdout, self.p.stderr):
            try:
                f.close()
            except Exception:
                pass
        return self.p.returncode


def star_sockets(n):
    """socket pairs between walker 0 and each walker i>0; returns per-walker fd lists (index = peer) and the socket objects"""
    fds = [[-1] * n for _ in range(n)]
    socks = []
    for i in range(1, n):
        a, b = socket.socketpair(socket.AF_UNIX, socket.SOCK_STREAM)
        a.set_inheritable(True)
        b.set_inheritable(True)
        socks += [a, b]
        fds[0][i] = a.fileno()
        fds[i][0] = b.fileno()
    return fds, socks
