"""Shared machinery: running cvdrive, parallel Hypothesis search, evidence, known findings."""
import hashlib
import json
import multiprocessing as mp
import os
import shutil
import signal
import subprocess
import sys
import atexit
import tempfile
import time
import traceback

VERIF = "/verif"
BUILD = os.path.join(VERIF, "build")
REPLAYS = os.path.join(VERIF, "replays")
EVIDENCE = os.path.join(VERIF, "evidence")
KNOWN = os.path.join(VERIF, "known_findings.json")

BIN = {"rel": os.path.join(BUILD, "rel", "cvdrive"),
       "asan": os.path.join(BUILD, "asan", "cvdrive"),
       "tsan": os.path.join(BUILD, "tsan", "cvdrive")}

ENV_BASE = dict(os.environ)
ENV_BASE["OMP_NUM_THREADS"] = "1"
ENV_BASE["ASAN_OPTIONS"] = "detect_leaks=0:abort_on_error=1:max_allocation_size_mb=2048:allocator_may_return_null=0"
ENV_BASE["UBSAN_OPTIONS"] = "print_stacktrace=1:halt_on_error=1"
ENV_BASE["TSAN_OPTIONS"] = "halt_on_error=1:exitcode=66:report_signal_unsafe=0"


def fnum(x):
    """Exact text for a double (C99 hex float is parsed by strtod)."""
    return float(x).hex()


class RunResult:
    def __init__(self, recs, returncode, stderr, timed_out=False):
        self.recs = recs
        self.returncode = returncode
        self.stderr = stderr
        self.timed_out = timed_out

    @property
    def signal(self):
        return -self.returncode if self.returncode is not None and self.returncode < 0 else 0

    @property
    def crashed(self):
        """Killed by a signal or by a sanitizer (abort)."""
        return self.timed_out or (self.returncode is not None and self.returncode < 0) or \
            self.returncode in (66, 134)

    def of(self, tag):
        return [r for r in self.recs if r.get("t") == tag]

    def complete(self):
        return bool(self.recs) and self.recs[-1].get("t") == "end"


_CWD = {}


def _default_cwd():
    d = _CWD.get(os.getpid())
    if d is None and _CWD.get("worker") and os.path.isdir(_CWD["worker"]):
        return _CWD["worker"]
    if d is None or not os.path.isdir(d):
        d = tempfile.mkdtemp(prefix="vf_cwd_")
        _CWD.clear()
        _CWD[os.getpid()] = d
        atexit.register(shutil.rmtree, d, ignore_errors=True)
    return d


def run_case(case_text, variant="rel", timeout=120, cwd=None, extra_env=None, binary=None):
    env = dict(ENV_BASE)
    if extra_env:
        env.update(extra_env)
    exe = binary or BIN[variant]
    timed_out = False
    if cwd is None:
        # some biases write files named after an empty output prefix into the working directory: never into /verif
        cwd = _default_cwd()
    try:
        p = subprocess.run([exe, "-", "-"], input=case_text.encode("utf-8", "surrogateescape"),
                           stdout=subprocess.PIPE, stderr=subprocess.PIPE, env=env, cwd=cwd,
                           timeout=timeout)
        out, err, rc = p.stdout, p.stderr, p.returncode
    except subprocess.TimeoutExpired as e:
        out, err, rc = e.stdout or b"", e.stderr or b"", None
        timed_out = True
    recs = []
    for line in out.decode("utf-8", "replace").splitlines():
        line = line.strip()
        if not line.startswith("{"):
            continue
        try:
            recs.append(json.loads(line))
        except Exception:
            recs.append({"t": "garbled", "raw": line[:200]})
    return RunResult(recs, rc, err.decode("utf-8", "replace")[-4000:], timed_out)


def pct(s):
    """percent-encode an argument for a case-file line"""
    out = []
    for ch in s.encode("utf-8", "surrogateescape"):
        if ch <= 0x20 or ch == 0x25 or ch >= 0x7f:
            out.append("%%%02X" % ch)
        else:
            out.append(chr(ch))
    return "".join(out) if out else "%20"[:0]


def spec_hash(spec):
    return hashlib.sha1(json.dumps(spec, sort_keys=True, default=str).encode()).hexdigest()[:12]


# ------------------------------------------------------------------------------------------
# Result of evaluating one generated case

class Outcome:
    """ok: property held. nontrivial: case counts by the stated rule. cls: structural class labels.
    If not ok: msg explains; sig is a short root-cause signature used for known findings."""

    def __init__(self, ok=True, nontrivial=False, cls=(), msg="", sig="", case_text="", discard=False,
                 strata=()):
        self.ok = ok
        self.nontrivial = nontrivial
        self.cls = tuple(cls)
        self.msg = msg
        self.sig = sig
        self.case_text = case_text
        self.discard = discard
        self.strata = tuple(strata)


class Violation(Exception):
    pass


def load_known():
    if not os.path.exists(KNOWN):
        return {"findings": [], "fixed": []}
    return json.load(open(KNOWN))


def known_open_sigs(prop):
    k = load_known()
    return {f["sig"]: f for f in k.get("findings", []) if f["property"] == prop}


# ------------------------------------------------------------------------------------------
# worker

def _worker(args):
    (modname, part, seed, n_examples, tier, widx) = args
    import importlib
    sys.path.insert(0, os.path.join(VERIF, "checks"))
    mod = importlib.import_module(modname)
    from hypothesis import given, settings, HealthCheck, seed as hseed, Phase
    import hypothesis
    sub = mod.PARTS[part]
    strategy = sub["strategy"](tier)
    checkfn = sub["check"]
    known = known_open_sigs(mod.ID)
    st = {"evals": 0, "nontrivial": set(), "classes": {}, "strata": {}, "samples": [], "known_hits": {},
          "discards": 0, "failure": None, "exc": None}
    workdir = tempfile.mkdtemp(prefix="vf_%s_" % mod.ID)
    ctx = {"tier": tier, "workdir": workdir, "widx": widx}
    _CWD["worker"] = os.path.join(workdir, "cwd")   # removed with the work directory (workers exit without atexit)
    os.makedirs(_CWD["worker"], exist_ok=True)

    shrink_budget = [250]
    shrink_deadline = [None]

    def one(spec):
        if st["failure"] is not None:
            # shrinking phase: bounded number of further evaluations and of seconds (a budget hit keeps the best failure so far)
            shrink_budget[0] -= 1
            if shrink_budget[0] < 0 or time.time() > shrink_deadline[0]:
                return
        st["evals"] += 1
        out = checkfn(spec, ctx)
        if out.discard:
            st["discards"] += 1
            return
        for s in out.strata:
            st["strata"][s] = st["strata"].get(s, 0) + 1
        if not out.ok:
            if out.sig in known:
                st["known_hits"][out.sig] = st["known_hits"].get(out.sig, 0) + 1
                return
            if st["failure"] is None:
                shrink_deadline[0] = time.time() + 180.0
                if out.sig.endswith("_hang"):
                    shrink_budget[0] = 0          # every evaluation of a hanging case costs the full time limit
            st["failure"] = {"spec": spec, "msg": out.msg, "sig": out.sig, "case": out.case_text,
                             "part": part}
            raise Violation(out.msg)
        if out.nontrivial:
            h = spec_hash(spec)
            st["nontrivial"].add(h)
            c = "|".join(out.cls)
            st["classes"][c] = st["classes"].get(c, 0) + 1
            if len(st["samples"]) < 3 and (st["evals"] % 7 == 1 or len(st["samples"]) == 0):
                st["samples"].append(sub.get("sample", lambda s: s)(spec))

    test = given(strategy)(one)
    test = settings(max_examples=n_examples, database=None, deadline=None, derandomize=False,
                    report_multiple_bugs=False, print_blob=False,
                    suppress_health_check=list(HealthCheck))(test)
    test = hseed(seed)(test)
    t0 = time.time()
    try:
        test()
    except Violation:
        pass
    except BaseException as e:  # harness error: report as such, never as a pass
        if st["failure"] is None:
            st["exc"] = "".join(traceback.format_exception(type(e), e, e.__traceback__))[-3000:]
    shutil.rmtree(workdir, ignore_errors=True)
    st["nontrivial"] = list(st["nontrivial"])
    st["wall"] = time.time() - t0
    return st


def derive_seed(base, part, widx):
    h = hashlib.sha256(("%d/%s/%d" % (base, part, widx)).encode()).digest()
    return int.from_bytes(h[:4], "big")


def run_property(mod, tier, seed, nworkers=16):
    """Runs every part of a property module; writes evidence; prints VIOLATION lines; returns exit code."""
    t0 = time.time()
    os.makedirs(EVIDENCE, exist_ok=True)
    os.makedirs(REPLAYS, exist_ok=True)
    total = {"evals": 0, "nontrivial": set(), "classes": {}, "strata": {}, "samples": [], "known_hits": {},
             "discards": 0}
    failures = []
    harness_errors = []
    per_part = {}
    ctxs = []
    jobs = []
    for part, sub in mod.PARTS.items():
        if "runner" in sub:
            continue
        n = sub["examples"][tier]
        nw = min(nworkers, max(1, n // 4))
        per = (n + nw - 1) // nw
        for w in range(nw):
            jobs.append((mod.__name__, part, derive_seed(seed, part, w), per, tier, w))
    results = []
    if jobs:
        with mp.Pool(min(nworkers, len(jobs))) as pool:
            results = pool.map(_worker, jobs, chunksize=1)
    for job, st in zip(jobs, results):
        part = job[1]
        pp = per_part.setdefault(part, {"evals": 0, "nontrivial": 0, "known_hits": {}})
        pp["evals"] += st["evals"]
        pp["nontrivial"] += len(st["nontrivial"])
        total["evals"] += st["evals"]
        total["discards"] += st["discards"]
        total["nontrivial"].update(part + ":" + h for h in st["nontrivial"])
        for k, v in st["classes"].items():
            total["classes"][part + ":" + k] = total["classes"].get(part + ":" + k, 0) + v
        for k, v in st["strata"].items():
            total["strata"][part + ":" + k] = total["strata"].get(part + ":" + k, 0) + v
        for k, v in st["known_hits"].items():
            total["known_hits"][k] = total["known_hits"].get(k, 0) + v
        if len(total["samples"]) < 5:
            total["samples"].extend({"part": part, "case": s} for s in st["samples"][:1])
        if st["failure"]:
            failures.append(st["failure"])
        if st["exc"]:
            harness_errors.append(st["exc"])
    # custom runners (libFuzzer, rapidcheck, enumerations)
    for part, sub in mod.PARTS.items():
        if "runner" not in sub:
            continue
        r = sub["runner"](tier, seed)
        per_part[part] = {"evals": r["evals"], "nontrivial": r["nontrivial"], "known_hits": r.get("known_hits", {})}
        total["evals"] += r["evals"]
        total["nontrivial"].update("%s:%d" % (part, i) for i in range(r["nontrivial"]))
        for k, v in r.get("classes", {}).items():
            total["classes"][part + ":" + k] = v
        for k, v in r.get("strata", {}).items():
            total["strata"][part + ":" + k] = v
        for k, v in r.get("known_hits", {}).items():
            total["known_hits"][k] = total["known_hits"].get(k, 0) + v
        total["samples"].extend({"part": part, "case": s} for s in r.get("samples", [])[:2])
        failures.extend(r.get("failures", []))
        harness_errors.extend(r.get("errors", []))

    # confirm failures by replaying 3x, save replay files
    confirmed = []
    # one failure per signature is confirmed and reported (sixteen workers usually find the same thing)
    seen_sigs = set()
    uniq = []
    for f in failures:
        if f["sig"] in seen_sigs:
            continue
        seen_sigs.add(f["sig"])
        uniq.append(f)
    failures = uniq
    for f in failures:
        sub = mod.PARTS[f["part"]]
        if "check" in sub and f.get("spec") is not None:
            ctx = {"tier": tier, "workdir": tempfile.mkdtemp(prefix="vf_rp_"), "widx": 0}
            bad = 0
            for _ in range(3):
                o = sub["check"](f["spec"], ctx)
                if not o.ok:
                    bad += 1
            shutil.rmtree(ctx["workdir"], ignore_errors=True)
            if bad < 3:
                harness_errors.append("non-reproducible failure (%d/3): %s" % (bad, f["msg"][:500]))
                continue
        key = f.get("spec") if f.get("spec") is not None else (f["sig"], f.get("reproduce", ""), f["msg"][:200])
        path = os.path.join(REPLAYS, "%s-%s-%s.json" % (mod.ID, f["part"], spec_hash(key)))
        rec = dict(f)
        rec["property"] = mod.ID
        json.dump(rec, open(path, "w"), indent=1, default=str)
        confirmed.append((f, path))

    # strata required by the module must be non-empty
    missing = []
    if hasattr(mod, "REQUIRED_STRATA"):
        for s in mod.REQUIRED_STRATA.get(tier, mod.REQUIRED_STRATA.get("all", [])):
            if total["strata"].get(s, 0) == 0:
                missing.append(s)

    known = known_open_sigs(mod.ID)
    for sig, f in known.items():
        print("KNOWN-FINDING: property=%s %s [%s] (seen %d times in this run)" %
              (mod.ID, f["what"], sig, total["known_hits"].get(sig, 0)))

    wall = time.time() - t0
    ev = {
        "property_id": mod.ID, "tier": tier, "seed": int(seed),
        "level": getattr(mod, "LEVEL", "exploration"),
        "coverage": {
            "evaluations": total["evals"],
            "distinct_nontrivial": len(total["nontrivial"]),
            "rule": mod.RULE,
            "samples": total["samples"][:5] or ["(no non-trivial sample collected)"],
            "per_part": per_part,
            "structural_classes": len(total["classes"]),
            "class_histogram_top": dict(sorted(total["classes"].items(), key=lambda kv: -kv[1])[:40]),
            "strata": total["strata"],
            "discarded": total["discards"],
            "excluded_known_finding_hits": total["known_hits"],
            "missing_required_strata": missing,
        },
        "assumptions": getattr(mod, "ASSUMPTIONS", []),
        "wall_s": round(wall, 2),
        "violations": len(confirmed),
    }
    json.dump(ev, open(os.path.join(EVIDENCE, mod.ID + ".json"), "w"), indent=1, default=str)
    for f, path in confirmed:
        print("VIOLATION property=%s replay=%s" % (mod.ID, path))
        print("  part=%s sig=%s: %s" % (f["part"], f["sig"], f["msg"][:1500]))
    if confirmed:
        return 1
    if harness_errors:
        for e in harness_errors[:3]:
            print("HARNESS-ERROR property=%s: %s" % (mod.ID, e), file=sys.stderr)
        return 2
    if missing:
        print("BROKEN-GENERATOR property=%s missing strata: %s" % (mod.ID, missing), file=sys.stderr)
        return 2
    print("OK property=%s tier=%s evaluations=%d distinct_nontrivial=%d classes=%d wall=%.1fs" %
          (mod.ID, tier, total["evals"], len(total["nontrivial"]), len(total["classes"]), wall))
    return 0


def replay(mod, path):
    d = json.load(open(path))
    sub = mod.PARTS[d["part"]]
    if "replay" in sub:
        return sub["replay"](d)
    ctx = {"tier": "quick", "workdir": tempfile.mkdtemp(prefix="vf_rp_"), "widx": 0}
    o = sub["check"](d["spec"], ctx)
    shutil.rmtree(ctx["workdir"], ignore_errors=True)
    if not o.ok:
        print("VIOLATION property=%s replay=%s" % (mod.ID, path))
        print("  " + o.msg[:3000])
        return 1
    print("replay passes: property=%s %s" % (mod.ID, path))
    return 0
