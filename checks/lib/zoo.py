"""A zoo of biases on controlled scalar variables (lib/cvz.py), used by the history / stateful checks (C03, C12, C13...).
A zoo configuration is {"vars": [...], "biases": [...]}; everything is JSON-able."""
from hypothesis import strategies as st
from . import cvz
from .gen import fl, rnd, fmt

BIAS_KINDS = ["harmonic", "harmonic_moving", "harmonic_kmoving", "harmonic_staged", "harmonic_sched", "walls", "linear", "abf", "meta", "meta_nogrid",
              "meta_wt", "opes", "abmd", "alb", "histogram"]


@st.composite
def variables(draw, nmax=2, allow_ext=True, allow_periodic=True):
    n = draw(st.integers(1, nmax))
    out = []
    for i in range(n):
        g = draw(cvz.grid_def(5, 10))
        v = {"name": "z%d" % i, "atom": i + 1, "grid": g, "periodic": allow_periodic and draw(st.integers(0, 4)) == 0, "ext": False}
        if allow_ext and not v["periodic"] and draw(st.integers(0, 4)) == 0:
            v["ext"] = True
            v["ext_fluct"] = rnd(draw(fl(0.1, 0.5)), 2)
            v["ext_tc"] = draw(st.sampled_from([20.0, 50.0, 100.0]))
            v["ext_damp"] = draw(st.sampled_from([0.0, 1.0]))
        out.append(v)
    return out


def render_var(v, extra=None):
    ex = dict(extra or {})
    if v.get("ext"):
        ex.update({"extendedLagrangian": "on", "extendedFluctuation": fmt(v["ext_fluct"]), "extendedTimeConstant": fmt(v["ext_tc"]),
                   "extendedLangevinDamping": fmt(v["ext_damp"]), "extendedTemp": "300"})
    ex.update(v.get("kv", {}))
    g = v["grid"]
    return cvz.zvar(v["name"], v["atom"], g["lower"], g["upper"], g["width"], periodic=v["periodic"], extra=ex)


@st.composite
def bias(draw, vs, idx, kinds=None, total_forces=True):
    kinds = list(kinds or BIAS_KINDS)
    if not total_forces:
        kinds = [k for k in kinds if k != "abf"]
    k = draw(st.sampled_from(kinds))
    nv = len(vs)
    vi = draw(st.integers(0, nv - 1))
    v = vs[vi]
    g = v["grid"]
    mid = g["lower"] + 0.5 * g["n"] * g["width"]
    b = {"kind": k, "name": "b%d" % idx, "vars": [vi], "k": rnd(draw(fl(0.3, 6)), 2), "c": rnd(mid + draw(fl(-1, 1)) * g["width"], 3),
         "c1": rnd(mid + draw(fl(-2, 2)) * g["width"], 3), "N": draw(st.integers(2, 9)), "nf": draw(st.integers(1, 3)),
         "W": rnd(draw(fl(0.05, 1.0)), 3)}
    if k in ("harmonic", "meta", "histogram", "abf", "meta_nogrid") and nv > 1 and draw(st.booleans()):
        b["vars"] = list(range(nv))
    if k == "harmonic_moving":
        b["stages"] = draw(st.sampled_from([0, 0, 2, 3]))      # staged centres
    if k in ("opes", "abmd", "alb", "linear", "harmonic_staged", "harmonic_kmoving", "harmonic_sched") and v["periodic"]:
        others = [i for i, x in enumerate(vs) if not x["periodic"]]
        if not others:
            b["kind"] = "harmonic"
        else:
            b["vars"] = [others[0]]
    if k == "meta":
        b["keep"] = draw(st.booleans())
        b["gf"] = draw(st.sampled_from([1, 1, 2]))
    if k == "abf":
        b["full"] = draw(st.integers(1, 5))
    if k == "alb":
        # a small range is outgrown within a few updates (the range then expands, which is part of the state)
        b["fr"] = draw(st.sampled_from([3.0, 0.05, 0.002, 0.002]))
    return b


def centers(b, vs, key="c"):
    out = []
    for i in b["vars"]:
        g = vs[i]["grid"]
        mid = g["lower"] + 0.5 * g["n"] * g["width"]
        out.append(fmt(b[key] if i == b["vars"][0] else rnd(mid, 3)))
    return " ".join(out)


def render_bias(b, vs):
    k = b["kind"]
    names = " ".join(vs[i]["name"] for i in b["vars"])
    L = []
    if k.startswith("harmonic"):
        L = ["harmonic {", "  name " + b["name"], "  colvars " + names, "  centers " + centers(b, vs), "  forceConstant " + fmt(b["k"])]
        if k == "harmonic_moving":
            L += ["  targetCenters " + centers(b, vs, "c1"), "  targetNumSteps %d" % b["N"]]
            if b.get("stages"):
                L += ["  targetNumStages %d" % b["stages"], "  outputCenters on"]
            else:
                L += ["  outputAccumulatedWork on", "  outputCenters on"]
        elif k == "harmonic_kmoving":
            L += ["  targetForceConstant " + fmt(b["k"] * 2.5), "  targetNumSteps %d" % b["N"], "  outputAccumulatedWork on"]
        elif k == "harmonic_sched":
            L += ["  targetForceConstant " + fmt(b["k"] * 2.5), "  targetNumSteps %d" % b["N"], "  lambdaSchedule 0.0 0.25 0.6 1.0"]
        elif k == "harmonic_staged":
            L += ["  targetForceConstant " + fmt(b["k"] * 2.5), "  targetNumSteps %d" % b["N"], "  targetNumStages 3"]
    elif k == "walls":
        L = ["harmonicWalls {", "  name " + b["name"], "  colvars " + names, "  lowerWalls " + centers(b, vs),
             "  upperWalls " + " ".join(fmt(float(c) + vs[i]["grid"]["width"]) for c, i in zip(centers(b, vs).split(), b["vars"])),
             "  forceConstant " + fmt(b["k"])]
    elif k == "linear":
        L = ["linear {", "  name " + b["name"], "  colvars " + names, "  centers " + centers(b, vs), "  forceConstant " + fmt(b["k"])]
    elif k == "abf":
        L = ["abf {", "  name " + b["name"], "  colvars " + names, "  fullSamples %d" % b["full"], "  integrate off"]
    elif k in ("meta", "meta_nogrid", "meta_wt"):
        L = ["metadynamics {", "  name " + b["name"], "  colvars " + names, "  hillWeight " + fmt(b["W"]), "  hillWidth 2.0",
             "  newHillFrequency %d" % b["nf"]]
        if k == "meta_nogrid":
            L.append("  useGrids off")
        else:
            L.append("  writeFreeEnergyFile off")
            if b.get("keep"):
                L.append("  keepHills on")
            if b.get("gf", 1) != 1:
                L.append("  gridsUpdateFrequency %d" % (b["nf"] * b["gf"]))
        if k == "meta_wt":
            L += ["  wellTempered on", "  biasTemperature 1500"]
    elif k == "opes":
        L = ["opes_metad {", "  name " + b["name"], "  colvars " + names, "  newHillFrequency %d" % b["nf"], "  barrier 5.0",
             "  gaussianSigma " + " ".join(fmt(0.8 * vs[i]["grid"]["width"]) for i in b["vars"])]
    elif k == "abmd":
        L = ["abmd {", "  name " + b["name"], "  colvars " + names, "  forceConstant " + fmt(b["k"]), "  stoppingValue " + fmt(b["c1"] + 5.0)]
    elif k == "alb":
        # ALB updates its coupling from <x>/centre - 1: a zero centre is rejected by the library
        cz = " ".join(c if float(c) != 0.0 else fmt(0.5 * vs[i]["grid"]["width"]) for c, i in zip(centers(b, vs).split(), b["vars"]))
        L = ["alb {", "  name " + b["name"], "  colvars " + names, "  centers " + cz, "  updateFrequency %d" % (2 * max(2, b["N"] // 2)),
             "  forceRange " + fmt(b.get("fr", 3.0))]
        if b.get("fr", 3.0) < 1.0:
            L.append("  hardForceRange off")      # the range grows when the coupling outgrows it
    elif k == "histogram":
        L = ["histogram {", "  name " + b["name"], "  colvars " + names]
    L.append("}")
    return "\n".join(L)


def render(z, var_extra=None):
    parts = [render_var(v, (var_extra or {}).get(v["name"])) for v in z["vars"]]
    parts += [render_bias(b, z["vars"]) for b in z["biases"]]
    return "\n".join(parts)


def needs_total_forces(z):
    return any(b["kind"] == "abf" for b in z["biases"])


@st.composite
def trajectory(draw, vs, T, outside=True):
    """per-step values for each variable: a walk that visits bins repeatedly and leaves the grid sometimes"""
    cur = [draw(cvz.value_in_grid(v["grid"], outside_p=6)) for v in vs]
    steps = []
    for t in range(T):
        for i, v in enumerate(vs):
            g = v["grid"]
            mv = draw(st.integers(0, 5))
            if mv == 0 and outside:
                cur[i] = draw(cvz.value_in_grid(g, outside_p=2))
            elif mv <= 3:
                cur[i] = cur[i] + rnd(draw(fl(-0.9, 0.9)), 3) * g["width"]
        steps.append([rnd(c, 6) for c in cur])
    return steps
