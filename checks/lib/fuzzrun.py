"""libFuzzer campaign runner: fork mode, crash collection, signature de-duplication, known-finding matching."""
import glob
import hashlib
import os
import re
import shutil
import subprocess
import tempfile
import time
from .core import VERIF, BUILD, REPLAYS, ENV_BASE, known_open_sigs


def build(target):
    exe = os.path.join(BUILD, "asan", target)
    r = subprocess.run(["make", "-s", "-j16", "-C", VERIF, exe], stdout=subprocess.PIPE, stderr=subprocess.STDOUT)
    if r.returncode != 0:
        raise RuntimeError("build of %s failed:\n%s" % (target, r.stdout.decode()[-3000:]))
    if not os.path.exists(os.path.join(BUILD, "fuzz", "config.dict")):
        subprocess.run(["python3", os.path.join(VERIF, "tools", "mkdict.py")], stdout=subprocess.DEVNULL)
    return exe


def fenv():
    env = dict(ENV_BASE)
    env["ASAN_OPTIONS"] = ("detect_leaks=0:abort_on_error=0:max_allocation_size_mb=3000:allocator_may_return_null=0:"
                           "symbolize=1:handle_abort=1:handle_sigfpe=1:handle_segv=1")
    env["UBSAN_OPTIONS"] = "print_stacktrace=1:halt_on_error=1:symbolize=1"
    env["VF_TMP"] = SCRATCH[0]
    if os.path.exists("/usr/bin/llvm-symbolizer-14"):
        env["ASAN_SYMBOLIZER_PATH"] = "/usr/bin/llvm-symbolizer-14"
    return env


SCRATCH = [tempfile.mkdtemp(prefix="vf_fzscratch_")]
import atexit
atexit.register(lambda: shutil.rmtree(SCRATCH[0], ignore_errors=True))

FRAME = re.compile(r"#\d+ 0x[0-9a-f]+ in (.+?) (/[^\s:]+):(\d+)")


def signature(stderr):
    """root-cause signature of a crash report: kind + first stack frame inside /repo/src"""
    kind = "unknown"
    m = re.search(r"FUZZ-ORACLE-FAILURE: (.*)", stderr)
    if m:
        return "oracle:" + m.group(1).strip()[:80]
    m = re.search(r"runtime error: (.*)", stderr)
    if m:
        kind = "ubsan:" + re.sub(r"\d+", "N", m.group(1))[:50]
    m2 = re.search(r"ERROR: AddressSanitizer: ([\w-]+)", stderr)
    if m2:
        kind = "asan:" + m2.group(1)
    elif "terminate called" in stderr or "std::" in stderr and "what():" in stderr:
        w = re.search(r"terminate called after throwing an instance of '([^']+)'", stderr)
        kind = "exception:" + (w.group(1) if w else "?")
    elif "deadly signal" in stderr and kind == "unknown":
        kind = "signal"
    if "out-of-memory" in stderr or "allocation-size-too-big" in stderr:
        kind = "asan:alloc-too-big"
    func = "?"
    for fm in FRAME.finditer(stderr):
        if fm.group(2).startswith("/repo/src/"):
            func = re.sub(r"\(.*", "", fm.group(1))
            func = re.sub(r"<.*", "", func)
            break
    return kind + "@" + func


def reproduce(exe, path, timeout=120, runs=3):
    """re-run a saved input alone; returns (crashed_every_time, stderr of last run)"""
    bad = 0
    err = ""
    for _ in range(runs):
        try:
            p = subprocess.run([exe, path], stdout=subprocess.PIPE, stderr=subprocess.PIPE, env=fenv(), timeout=timeout)
            err = p.stderr.decode("utf-8", "replace")
            if p.returncode != 0:
                bad += 1
        except subprocess.TimeoutExpired:
            bad += 1
            err = "HANG: input did not complete within %d s" % timeout
    return bad == runs, err


def campaign(prop, part, target, tier, seed, seconds, corpus_dirs=(), dict_path=None, max_len=4096, extra_args=(),
             forks=16, unit_timeout=25):
    exe = build(target)
    work = tempfile.mkdtemp(prefix="vf_fz_%s_" % part)
    corp = os.path.join(work, "corpus")
    arts = os.path.join(work, "art")
    os.makedirs(corp)
    os.makedirs(arts)
    # replay tier: saved regression inputs of this target run first (seconds)
    regress = sorted(glob.glob(os.path.join(VERIF, "fuzz", "regress", target, "*")))
    failures = []
    known = known_open_sigs(prop)
    known_hits = {}
    nreg = 0
    for r in regress:
        crashed, err = reproduce(exe, r, runs=1)
        nreg += 1
        if crashed:
            sig = signature(err)
            if sig in known:
                known_hits[sig] = known_hits.get(sig, 0) + 1
            else:
                failures.append({"part": part, "spec": None, "sig": sig, "msg": "regression input %s fails: %s" % (r, err[-1500:]),
                                 "case": err[-6000:], "artifact": r, "target": target})
    args = [exe, "-fork=%d" % forks, "-ignore_crashes=1", "-ignore_timeouts=1", "-ignore_ooms=1",
            "-max_total_time=%d" % seconds, "-max_len=%d" % max_len, "-timeout=%d" % unit_timeout, "-rss_limit_mb=4096",
            "-seed=%d" % (seed if seed else 1), "-artifact_prefix=" + arts + "/", "-print_final_stats=1"]
    if dict_path:
        args.append("-dict=" + dict_path)
    args += list(extra_args)
    args.append(corp)
    args += [d for d in corpus_dirs if os.path.isdir(d)]
    t0 = time.time()
    try:
        p = subprocess.run(args, stdout=subprocess.PIPE, stderr=subprocess.STDOUT, env=fenv(), cwd=work,
                           timeout=seconds + 600)
        log = p.stdout.decode("utf-8", "replace")
    except subprocess.TimeoutExpired as e:
        log = (e.stdout or b"").decode("utf-8", "replace")
    execs = 0
    for m in re.finditer(r"#(\d+): cov: (\d+) ft: (\d+) corp: (\d+) exec/s:? (\d+)", log):
        execs = max(execs, int(m.group(1)))
    cov = 0
    for m in re.finditer(r"cov: (\d+)", log):
        cov = max(cov, int(m.group(1)))
    ncorp = len(os.listdir(corp))
    # triage artifacts
    sigs = {}
    arts_list = sorted(glob.glob(os.path.join(arts, "crash-*")) + glob.glob(os.path.join(arts, "leak-*")))
    hang_list = sorted(glob.glob(os.path.join(arts, "timeout-*")))[:3]
    for a in arts_list[:400]:
        crashed, err = reproduce(exe, a, runs=1)
        if not crashed:
            continue
        sig = signature(err)
        if sig in sigs:
            continue
        sigs[sig] = (a, err)
    # inputs that exceeded the per-unit time limit are counted, not reported: with the sizes the decoders can ask for (grids of
    # 10^7 points written as text at every output step) a slow input is a big job, not a hang; a time budget hit is inconclusive
    ntimeouts = len(glob.glob(os.path.join(arts, "timeout-*")))
    samples = []
    for f in sorted(os.listdir(corp))[:400:100]:
        try:
            samples.append(open(os.path.join(corp, f), "rb").read()[:300].decode("latin-1"))
        except Exception:
            pass
    large = 0
    for sig, (a, err) in list(sigs.items()):
        # DESIGN 3.7: a grid whose size the configuration asks for (checked by the code against an explicit bound of 2^40 elements)
        # and which merely exceeds the fuzzer's allocation limit is "legitimately large", counted and not reported
        if sig.startswith("asan:alloc-too-big") and re.search(r"colvar_grid<[^>]*>::setup\(|colvarbias_restraint_histogram::init\(", err):
            # both places check the requested size against an explicit bound (2^40 grid elements, 1e9 histogram bins) first
            large += 1
            del sigs[sig]
    for sig, (a, err) in sigs.items():
        if sig in known:
            known_hits[sig] = known_hits.get(sig, 0) + 1
            continue
        # confirm 3x
        ok3, err3 = reproduce(exe, a, runs=3)
        if not ok3:
            continue
        os.makedirs(REPLAYS, exist_ok=True)
        dst = os.path.join(REPLAYS, "%s-%s-%s.bin" % (prop, part, hashlib.sha1(open(a, "rb").read()).hexdigest()[:12]))
        shutil.copy(a, dst)
        failures.append({"part": part, "spec": None, "sig": sig, "msg": "%s on input %s:\n%s" % (sig, dst, err3[-1800:]),
                         "case": err3[-8000:], "artifact": dst, "target": target})
    shutil.rmtree(work, ignore_errors=True)
    return {"evals": execs + nreg, "nontrivial": ncorp, "classes": {}, "samples": samples,
            "strata": {"coverage_edges": cov, "corpus_inputs": ncorp, "crash_artifacts": len(arts_list),
                       "distinct_signatures": len(sigs), "legitimately_large_grid_allocations": large, "slow_inputs_inconclusive": ntimeouts, "regression_inputs": nreg, "seconds": int(time.time() - t0)},
            "failures": failures, "known_hits": known_hits, "errors": []}


def replay_fuzz(d):
    exe = build(d["target"])
    crashed, err = reproduce(exe, d["artifact"], runs=1)
    if crashed:
        print("VIOLATION property=%s replay=%s" % (d["property"], d["artifact"]))
        print(err[-3000:])
        return 1
    print("replay passes")
    return 0
