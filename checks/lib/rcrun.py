"""Runner for rapidcheck (direct-API) targets: 16 processes with derived seeds, merged counters."""
import json
import os
import re
import subprocess
import tempfile
from concurrent.futures import ThreadPoolExecutor
from .core import VERIF, BUILD, REPLAYS, ENV_BASE, derive_seed


def build(target):
    exe = os.path.join(BUILD, "rel", target)
    r = subprocess.run(["make", "-s", "-C", VERIF, exe], stdout=subprocess.PIPE, stderr=subprocess.STDOUT)
    if r.returncode != 0:
        raise RuntimeError("build of %s failed:\n%s" % (target, r.stdout.decode()[-3000:]))
    return exe


def _one(args):
    exe, seed, n, maxsize, extra = args
    fd, cpath = tempfile.mkstemp(prefix="rc_cnt_", suffix=".json")
    os.close(fd)
    env = dict(ENV_BASE)
    env["RC_PARAMS"] = "seed=%d max_success=%d max_size=%d" % (seed, n, maxsize)
    p = subprocess.run([exe, cpath] + list(extra), stdout=subprocess.PIPE, stderr=subprocess.STDOUT, env=env)
    out = p.stdout.decode("utf-8", "replace")
    cnt = {}
    try:
        cnt = json.load(open(cpath))
    except Exception:
        pass
    os.unlink(cpath)
    return {"rc": p.returncode, "out": out, "cnt": cnt, "seed": seed}


def run_rc(prop, part, target, tier, seed, n_total, nontrivial_keys, maxsize=100, nproc=16, extra=()):
    exe = build(target)
    per = max(10, n_total // nproc)
    jobs = [(exe, derive_seed(seed, part, w) % (2 ** 31 - 2) + 1, per, maxsize, extra) for w in range(nproc)]
    with ThreadPoolExecutor(nproc) as ex:
        results = list(ex.map(_one, jobs))
    counters = {}
    samples = []
    failures = []
    errors = []
    for r in results:
        for k, v in r["cnt"].get("counters", {}).items():
            counters[k] = counters.get(k, 0) + v
        samples.extend(r["cnt"].get("samples", [])[:1])
        if "Falsifiable" in r["out"] or r["rc"] not in (0,):
            if "Falsifiable" not in r["out"] and r["rc"] != 1:
                # crash of the target (signal / sanitizer)
                failures.append({"part": part, "spec": None, "sig": "crash", "msg": "target %s died rc=%s: %s" %
                                 (target, r["rc"], r["out"][-1500:]), "case": r["out"][-6000:], "seed": r["seed"]})
                continue
            if "Falsifiable" not in r["out"]:
                errors.append("rapidcheck target %s exit %s without a falsified property: %s" % (target, r["rc"], r["out"][-800:]))
                continue
            m = re.search(r'RC_PARAMS="(reproduce=[^"]+)"', r["out"])
            blocks = re.findall(r"^- (.*)\nFalsifiable.*?(?=^- |\Z|^Some of your)", r["out"], re.S | re.M)
            short = re.sub(r"\n(?:int|double|long|bool|std::[^\n]*):\n[^\n]*\n", "\n", r["out"])
            short = "\n".join(l for l in short.splitlines() if l.strip())
            failures.append({"part": part, "spec": None, "sig": "rc:" + (blocks[0][:60] if blocks else "property"),
                             "msg": short[-2500:], "case": r["out"][-12000:], "reproduce": m.group(1) if m else "",
                             "seed": r["seed"], "target": target})
    evals = sum(v for k, v in counters.items() if k.endswith(".cases"))
    nontrivial = sum(counters.get(k, 0) for k in nontrivial_keys)
    # keep only the first failure per signature
    seen = set()
    uniq = []
    for f in failures:
        if f["sig"] not in seen:
            seen.add(f["sig"])
            uniq.append(f)
    return {"evals": evals, "nontrivial": nontrivial, "classes": {}, "strata": counters, "samples": samples[:3],
            "failures": uniq, "errors": errors}


def replay_rc(d):
    exe = build(d.get("target") or d["spec_target"])
    env = dict(ENV_BASE)
    env["RC_PARAMS"] = d.get("reproduce") or ("seed=%d" % d.get("seed", 1))
    p = subprocess.run([exe, "/dev/null"], stdout=subprocess.PIPE, stderr=subprocess.STDOUT, env=env)
    out = p.stdout.decode("utf-8", "replace")
    if "Falsifiable" in out or p.returncode not in (0, 1):
        print("VIOLATION property=%s replay=(rapidcheck reproduce string)" % d["property"])
        print(out[-3000:])
        return 1
    print("replay passes")
    return 0
