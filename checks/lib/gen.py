"""Hypothesis strategies for systems, atom groups, components, variables and biases,
and rendering of these specs as Colvars configuration text.  Specs are plain JSON-able dicts."""
import math
from hypothesis import strategies as st

# ---------------------------------------------------------------------------------------
# helpers

def fl(lo, hi):
    return st.floats(min_value=lo, max_value=hi, allow_nan=False, allow_infinity=False, width=64)


def rnd(x, nd=6):
    return float(round(x, nd))


def _generic(k, scale=1.0):
    """deterministic 'generic' offsets in [-scale, scale]: keeps fully shrunk examples away from the singular
    geometries (collinear / coplanar / coincident / symmetric) that a plain lattice would give"""
    out = []
    x = (k * 2654435761 + 12345) & 0xFFFFFFFF
    for _ in range(3):
        x = (x * 1664525 + 1013904223) & 0xFFFFFFFF
        out.append(((x >> 8) / float(1 << 24) * 2.0 - 1.0) * scale)
    return out


_GQ = [0.5744562646538029, 0.3446737587922817, -0.6893475175845634, 0.2757390070338254]
_GQN = math.sqrt(sum(c * c for c in _GQ))
GENERIC_QUAT = [c / _GQN for c in _GQ]


def quat_mul(a, b):
    q = [a[0] * b[0] - a[1] * b[1] - a[2] * b[2] - a[3] * b[3],
         a[0] * b[1] + a[1] * b[0] + a[2] * b[3] - a[3] * b[2],
         a[0] * b[2] - a[1] * b[3] + a[2] * b[0] + a[3] * b[1],
         a[0] * b[3] + a[1] * b[2] - a[2] * b[1] + a[3] * b[0]]
    n = math.sqrt(sum(c * c for c in q))
    return [c / n for c in q]


@st.composite
def coords(draw, n, spacing=2.2, jitter=0.4, grid=4):
    """n points on distinct sites of a cubic lattice, jittered: min separation >= spacing-2*jitter*sqrt(3)~0.3,
    typically > 1"""
    sites = draw(st.lists(st.integers(0, grid ** 3 - 1), min_size=n, max_size=n, unique=True))
    out = []
    for s in sites:
        # scatter consecutive site numbers over the lattice, so that the sites a shrunk example ends up with
        # (0, 1, 2, 3...) are neither collinear nor coplanar
        sp = (s * 29) % (grid ** 3) if grid == 4 else s
        ix, iy, iz = sp % grid, (sp // grid) % grid, sp // (grid * grid)
        g = _generic(s, 0.35)
        j = [draw(fl(-jitter, jitter)) + g[i] for i in range(3)]
        out.append([rnd(ix * spacing + j[0]), rnd(iy * spacing + j[1]), rnd(iz * spacing + j[2])])
    return out


@st.composite
def system(draw, nmin=4, nmax=12, cell=None, unit_masses=False):
    n = draw(st.integers(nmin, nmax))
    masses = [1.0] * n if unit_masses else [rnd(draw(fl(1.0, 40.0)), 3) for _ in range(n)]
    # charges bounded away from zero (a fully shrunk example must not have vanishing dipoles)
    charges = [rnd((0.2 + draw(fl(0.0, 0.8))) * (1 if (i * 7 + 3) % 5 < 3 else -1), 3) for i in range(n)]
    pos = draw(coords(n))
    use_cell = draw(st.booleans()) if cell is None else cell
    c = None
    if use_cell:
        # all lattice coordinates lie within [−0.6, 7.2]; a cell edge >= 20 keeps every
        # inter-group distance below 0.45 x shortest edge
        c = [rnd(draw(fl(20.0, 30.0)), 3) for _ in range(3)]
        # (checks that use fitted frames enlarge the cell: centred groups are moved to their reference positions)
    return {"natoms": n, "masses": masses, "charges": charges, "pos": pos, "cell": c}


def fmt(x):
    return repr(float(x))


def vec3(v):
    return "(" + ", ".join(fmt(x) for x in v) + ")"


# ---------------------------------------------------------------------------------------
# atom groups

@st.composite
def atom_ids(draw, natoms, kmin=1, kmax=4, exclude=()):
    pool = [i for i in range(1, natoms + 1) if i not in exclude]
    kmax = min(kmax, len(pool))
    kmin = min(kmin, kmax)
    ids = draw(st.lists(st.sampled_from(pool), min_size=kmin, max_size=kmax, unique=True))
    return ids


@st.composite
def group(draw, sysd, kmin=1, kmax=4, exclude=(), allow_dummy=False, allow_fit=False, form=None):
    n = sysd["natoms"]
    if allow_dummy and draw(st.integers(0, 5)) == 0:
        g = _generic(777, 0.3)
        return {"dummy": [rnd(draw(fl(-1, 8)) + g[i], 4) for i in range(3)]}
    ids = draw(atom_ids(n, kmin, kmax, exclude))
    g = {"atoms": ids, "form": form or draw(st.sampled_from(["numbers", "numbers", "range", "index"]))}
    if g["form"] == "range":
        lo = min(ids)
        hi = min(n, lo + len(ids) - 1)
        g["atoms"] = list(range(lo, hi + 1))
        if any(a in exclude for a in g["atoms"]) or len(g["atoms"]) != len(ids):
            g["atoms"] = ids
            g["form"] = "numbers"
    if allow_fit and draw(st.integers(0, 2)) == 0:
        g.update(draw(fit_options(sysd, g["atoms"])))
    return g


@st.composite
def fit_options(draw, sysd, atoms, force_rotate=None):
    """centerToReference / rotateToReference with reference positions; optionally a separate fitting group"""
    n = sysd["natoms"]
    o = {"center": True, "rotate": draw(st.booleans()) if force_rotate is None else force_rotate}
    fitg = None
    if draw(st.booleans()) or len(atoms) < 4:
        # separate fitting group of >= 4 atoms (may overlap the main group)
        k = draw(st.integers(4, min(6, n)))
        fitg = draw(st.lists(st.integers(1, n), min_size=k, max_size=k, unique=True))
        o["fitgroup"] = fitg
    ref_atoms = fitg if fitg is not None else atoms
    if o["rotate"] and len(ref_atoms) < 4:
        o["rotate"] = False
    # reference positions: a perturbed, rigidly moved copy of the current positions of the ref atoms
    o["refpos"] = draw(ref_positions(sysd, ref_atoms))
    return o


def quat_to_mat(q):
    w, x, y, z = q
    return [[1 - 2 * (y * y + z * z), 2 * (x * y - z * w), 2 * (x * z + y * w)],
            [2 * (x * y + z * w), 1 - 2 * (x * x + z * z), 2 * (y * z - x * w)],
            [2 * (x * z - y * w), 2 * (y * z + x * w), 1 - 2 * (x * x + y * y)]]


@st.composite
def unit_quat(draw):
    q = [draw(fl(-1, 1)) for _ in range(4)]
    nrm = math.sqrt(sum(c * c for c in q))
    if nrm < 0.2:
        q = [1.0, 0.0, 0.0, 0.0]
        nrm = 1.0
    return [c / nrm for c in q]


@st.composite
def ref_positions(draw, sysd, atoms, perturb=0.3):
    q = quat_mul(draw(unit_quat()), GENERIC_QUAT)
    R = quat_to_mat(q)
    t = [draw(fl(-3, 3)) for _ in range(3)]
    out = []
    for a in atoms:
        p = sysd["pos"][a - 1]
        g = _generic(1000 + a, 0.5 * perturb)
        p = [p[i] + 0.5 * draw(fl(-perturb, perturb)) + g[i] for i in range(3)]
        rp = [sum(R[i][j] * p[j] for j in range(3)) + t[i] for i in range(3)]
        out.append([rnd(c, 5) for c in rp])
    return out


def render_group(name, g, indent="    ", index_groups=None):
    ind = indent
    lines = ["%s%s {" % (ind, name)]
    if "dummy" in g:
        lines.append("%s  dummyAtom %s" % (ind, vec3(g["dummy"])))
    else:
        form = g.get("form", "numbers")
        if form == "range" and g["atoms"] == list(range(g["atoms"][0], g["atoms"][-1] + 1)):
            lines.append("%s  atomNumbersRange %d-%d" % (ind, g["atoms"][0], g["atoms"][-1]))
        elif form == "index" and index_groups is not None:
            gname = "ig%d" % len(index_groups)
            index_groups.append((gname, g["atoms"]))
            lines.append("%s  indexGroup %s" % (ind, gname))
        else:
            lines.append("%s  atomNumbers %s" % (ind, " ".join(str(a) for a in g["atoms"])))
    if g.get("center"):
        lines.append("%s  centerToReference on" % ind)
    if g.get("center_origin"):
        lines.append("%s  centerToOrigin on" % ind)
    if g.get("rotate"):
        lines.append("%s  rotateToReference on" % ind)
    if "fitgroup" in g:
        lines.append("%s  fittingGroup {" % ind)
        lines.append("%s    atomNumbers %s" % (ind, " ".join(str(a) for a in g["fitgroup"])))
        lines.append("%s  }" % ind)
    if "refpos" in g:
        lines.append("%s  refPositions %s" % (ind, " ".join(vec3(p) for p in g["refpos"])))
    if g.get("fitgrad") is False:
        lines.append("%s  enableFitGradients off" % ind)
    for k, v in g.get("kv", {}).items():
        lines.append("%s  %s %s" % (ind, k, v))
    lines.append("%s}" % ind)
    return "\n".join(lines)


# ---------------------------------------------------------------------------------------
# components.  spec: {"type", "groups": [(key, groupspec)...], "kv": {key: text}, "vtype": value type}

SCALAR, VEC3, UNIT3, QUAT, VECN = "scalar", "vector3", "unit3", "quaternion", "vector"


@st.composite
def unit_axis(draw):
    v = [draw(fl(-1, 1)) for _ in range(3)]
    g = [0.2672612419124244, -0.5345224838248488, 0.8017837257372732]
    nrm = math.sqrt(sum(c * c for c in v))
    if nrm < 0.3:
        v = g
    else:
        v = [v[i] / nrm + 0.15 * g[i] for i in range(3)]
    nrm = math.sqrt(sum(c * c for c in v))
    return [rnd(c / nrm, 6) for c in v]


@st.composite
def disjoint_groups(draw, sysd, k, kmin=1, kmax=3, allow_dummy_last=False, allow_fit=False):
    used = []
    out = []
    for i in range(k):
        avail = sysd["natoms"] - len(used) - (k - i - 1) * kmin
        g = draw(group(sysd, kmin, max(kmin, min(kmax, avail)), exclude=tuple(used),
                       allow_dummy=(allow_dummy_last and i == k - 1), allow_fit=allow_fit))
        used.extend(g.get("atoms", []))
        out.append(g)
    return out


def need(sysd, natoms_needed):
    return sysd["natoms"] >= natoms_needed


@st.composite
def comp_distance(draw, sysd, fit=False):
    g = draw(disjoint_groups(sysd, 2, allow_dummy_last=True, allow_fit=fit))
    return {"type": "distance", "groups": [("group1", g[0]), ("group2", g[1])], "kv": {}, "vtype": SCALAR}


@st.composite
def comp_distance_z(draw, sysd, xy=False, fit=False):
    kind = draw(st.sampled_from(["axis", "ref2", "default"]))
    ng = 3 if kind == "ref2" else 2
    g = draw(disjoint_groups(sysd, ng, allow_fit=fit))
    groups = [("main", g[0]), ("ref", g[1])]
    kv = {}
    if kind == "ref2":
        groups.append(("ref2", g[2]))
    elif kind == "axis":
        kv["axis"] = vec3(draw(unit_axis()))
    return {"type": "distanceXY" if xy else "distanceZ", "groups": groups, "kv": kv, "vtype": SCALAR}


@st.composite
def comp_distance_vec(draw, sysd, which="distanceVec"):
    g = draw(disjoint_groups(sysd, 2))
    return {"type": which, "groups": [("group1", g[0]), ("group2", g[1])], "kv": {},
            "vtype": UNIT3 if which == "distanceDir" else VEC3}


@st.composite
def comp_distance_inv(draw, sysd):
    g = draw(disjoint_groups(sysd, 2, kmax=3))
    return {"type": "distanceInv", "groups": [("group1", g[0]), ("group2", g[1])],
            "kv": {"exponent": str(draw(st.sampled_from([2, 4, 6])))}, "vtype": SCALAR}


@st.composite
def comp_distance_pairs(draw, sysd):
    g = draw(disjoint_groups(sysd, 2, kmax=2))
    return {"type": "distancePairs", "groups": [("group1", g[0]), ("group2", g[1])], "kv": {},
            "vtype": VECN, "vsize": len(g[0]["atoms"]) * len(g[1]["atoms"])}


@st.composite
def comp_cartesian(draw, sysd):
    g = draw(group(sysd, 1, 3))
    return {"type": "cartesian", "groups": [("atoms", g)], "kv": {}, "vtype": VECN, "vsize": 3 * len(g["atoms"])}


@st.composite
def comp_angle(draw, sysd, which="angle", fit=False):
    if which == "dipoleAngle":
        g1 = draw(group(sysd, 2, 3))
        rest = []
        used = list(g1["atoms"])
        for i in range(2):
            gi = draw(group(sysd, 1, 1 if sysd["natoms"] - len(used) <= (1 - i) + 1 else 2, exclude=tuple(used)))
            used.extend(gi["atoms"])
            rest.append(gi)
        g = [g1] + rest
        return {"type": which, "groups": [("group1", g[0]), ("group2", g[1]), ("group3", g[2])], "kv": {},
                "vtype": SCALAR}
    g = draw(disjoint_groups(sysd, 3, kmax=2, allow_fit=fit))
    return {"type": which, "groups": [("group1", g[0]), ("group2", g[1]), ("group3", g[2])], "kv": {},
            "vtype": SCALAR}


@st.composite
def comp_dihedral(draw, sysd, fit=False):
    g = draw(disjoint_groups(sysd, 4, kmax=2, allow_fit=fit))
    return {"type": "dihedral", "groups": [("group%d" % (i + 1), g[i]) for i in range(4)], "kv": {},
            "vtype": SCALAR, "periodic": 360.0}


@st.composite
def comp_polar(draw, sysd, which):
    g = draw(group(sysd, 1, 3))
    return {"type": which, "groups": [("atoms", g)], "kv": {}, "vtype": SCALAR,
            "periodic": 360.0 if which == "polarPhi" else None}


@st.composite
def comp_coordnum(draw, sysd):
    g = draw(disjoint_groups(sysd, 2, kmin=1, kmax=3))
    kv = {}
    en = draw(st.sampled_from([2, 4, 6]))
    ed = draw(st.sampled_from([en + 2, en + 4, 2 * en]))
    kv["expNumer"], kv["expDenom"] = str(en), str(ed)
    if draw(st.booleans()):
        kv["cutoff"] = fmt(rnd(draw(fl(2.0, 6.0)), 3))
    else:
        kv["cutoff3"] = vec3([rnd(draw(fl(2.0, 6.0)), 3) for _ in range(3)])
    mode = draw(st.sampled_from(["plain", "plain", "center", "pairlist"]))
    if mode == "center":
        kv["group2CenterOnly"] = "on"
    elif mode == "pairlist":
        kv["tolerance"] = fmt(draw(st.sampled_from([0.001, 0.01])))
        kv["pairListFrequency"] = str(draw(st.sampled_from([1, 3, 100])))
    return {"type": "coordNum", "groups": [("group1", g[0]), ("group2", g[1])], "kv": kv, "vtype": SCALAR,
            "mode": mode}


@st.composite
def comp_selfcoordnum(draw, sysd):
    g = draw(group(sysd, 2, 4))
    kv = {"cutoff": fmt(rnd(draw(fl(2.0, 6.0)), 3))}
    en = draw(st.sampled_from([2, 4, 6]))
    kv["expNumer"], kv["expDenom"] = str(en), str(en + draw(st.sampled_from([2, 6])))
    if draw(st.integers(0, 3)) == 0:
        kv["tolerance"] = fmt(0.001)
        kv["pairListFrequency"] = "2"
    return {"type": "selfCoordNum", "groups": [("group1", g)], "kv": kv, "vtype": SCALAR}


@st.composite
def comp_groupcoord(draw, sysd):
    g = draw(disjoint_groups(sysd, 2, kmax=3))
    kv = {}
    if draw(st.booleans()):
        kv["cutoff"] = fmt(rnd(draw(fl(2.0, 6.0)), 3))
    else:
        kv["cutoff3"] = vec3([rnd(draw(fl(2.0, 6.0)), 3) for _ in range(3)])
    en = draw(st.sampled_from([2, 4, 6]))
    kv["expNumer"], kv["expDenom"] = str(en), str(en + 4)
    return {"type": "groupCoord", "groups": [("group1", g[0]), ("group2", g[1])], "kv": kv, "vtype": SCALAR}


@st.composite
def comp_hbond(draw, sysd):
    ids = draw(atom_ids(sysd["natoms"], 2, 2))
    kv = {"acceptor": str(ids[0]), "donor": str(ids[1]), "cutoff": fmt(rnd(draw(fl(2.5, 5.0)), 3)),
          "expNumer": "6", "expDenom": "8"}
    return {"type": "hBond", "groups": [], "kv": kv, "vtype": SCALAR, "atoms": ids}


@st.composite
def comp_shape(draw, sysd, which):
    g = draw(group(sysd, 3, 6))
    kv = {}
    if which == "inertiaZ" and draw(st.booleans()):
        kv["axis"] = vec3(draw(unit_axis()))
    return {"type": which, "groups": [("atoms", g)], "kv": kv, "vtype": SCALAR}


@st.composite
def comp_dipole_magnitude(draw, sysd):
    g = draw(group(sysd, 2, 5))
    return {"type": "dipoleMagnitude", "groups": [("atoms", g)], "kv": {}, "vtype": SCALAR}


@st.composite
def comp_rmsd(draw, sysd):
    g = draw(group(sysd, 4, 7, form="numbers"))
    ref = draw(ref_positions(sysd, g["atoms"], perturb=0.6))
    return {"type": "rmsd", "groups": [("atoms", g)], "kv": {"refPositions": " ".join(vec3(p) for p in ref)},
            "vtype": SCALAR, "refpos": ref}


@st.composite
def comp_eigenvector(draw, sysd):
    n = sysd["natoms"]
    g = draw(group(sysd, 3, 5, form="numbers"))
    k = draw(st.integers(4, min(6, n)))
    fitg = draw(st.lists(st.integers(1, n), min_size=k, max_size=k, unique=True))
    g = dict(g)
    g.update({"center": True, "rotate": True, "fitgroup": fitg,
              "refpos": draw(ref_positions(sysd, fitg))})
    ref = draw(ref_positions(sysd, g["atoms"], perturb=0.4))
    vec = [[rnd(draw(fl(-1, 1)), 4) for _ in range(3)] for _ in g["atoms"]]
    if all(abs(c) < 1e-3 for v in vec for c in v):
        vec[0][0] = 1.0
    return {"type": "eigenvector", "groups": [("atoms", g)],
            "kv": {"refPositions": " ".join(vec3(p) for p in ref), "vector": " ".join(vec3(p) for p in vec)},
            "vtype": SCALAR, "refpos": ref, "vector": vec}


@st.composite
def comp_orientation(draw, sysd, which):
    g = draw(group(sysd, 4, 7, form="numbers"))
    ref = draw(ref_positions(sysd, g["atoms"], perturb=0.3))
    kv = {"refPositions": " ".join(vec3(p) for p in ref)}
    if which in ("tilt", "spinAngle") and draw(st.booleans()):
        kv["axis"] = vec3(draw(unit_axis()))
    vt = QUAT if which == "orientation" else SCALAR
    per = 360.0 if which in ("spinAngle", "eulerPhi", "eulerPsi") else None
    return {"type": which, "groups": [("atoms", g)], "kv": kv, "vtype": vt, "refpos": ref, "periodic": per}


SCALAR_COMPONENTS = {
    "distance": lambda s: comp_distance(s),
    "distance_fit": lambda s: comp_distance(s, fit=True),
    "distanceZ": lambda s: comp_distance_z(s),
    "distanceZ_fit": lambda s: comp_distance_z(s, fit=True),
    "distanceXY": lambda s: comp_distance_z(s, xy=True),
    "distanceInv": comp_distance_inv,
    "angle": lambda s: comp_angle(s, "angle"),
    "angle_fit": lambda s: comp_angle(s, "angle", fit=True),
    "dipoleAngle": lambda s: comp_angle(s, "dipoleAngle"),
    "dihedral": lambda s: comp_dihedral(s),
    "polarTheta": lambda s: comp_polar(s, "polarTheta"),
    "polarPhi": lambda s: comp_polar(s, "polarPhi"),
    "coordNum": comp_coordnum,
    "selfCoordNum": comp_selfcoordnum,
    "groupCoord": comp_groupcoord,
    "hBond": comp_hbond,
    "gyration": lambda s: comp_shape(s, "gyration"),
    "inertia": lambda s: comp_shape(s, "inertia"),
    "inertiaZ": lambda s: comp_shape(s, "inertiaZ"),
    "dipoleMagnitude": comp_dipole_magnitude,
    "rmsd": comp_rmsd,
    "eigenvector": comp_eigenvector,
    "orientationAngle": lambda s: comp_orientation(s, "orientationAngle"),
    "orientationProj": lambda s: comp_orientation(s, "orientationProj"),
    "tilt": lambda s: comp_orientation(s, "tilt"),
    "spinAngle": lambda s: comp_orientation(s, "spinAngle"),
    "eulerPhi": lambda s: comp_orientation(s, "eulerPhi"),
    "eulerTheta": lambda s: comp_orientation(s, "eulerTheta"),
    "eulerPsi": lambda s: comp_orientation(s, "eulerPsi"),
}

NONSCALAR_COMPONENTS = {
    "distanceVec": lambda s: comp_distance_vec(s, "distanceVec"),
    "distanceDir": lambda s: comp_distance_vec(s, "distanceDir"),
    "distancePairs": comp_distance_pairs,
    "cartesian": comp_cartesian,
    "orientation": lambda s: comp_orientation(s, "orientation"),
}

MIN_ATOMS = {"dihedral": 4, "angle": 3, "angle_fit": 4, "dipoleAngle": 5, "distanceZ": 3, "distanceZ_fit": 4,
             "distanceXY": 3, "rmsd": 4, "eigenvector": 4, "orientation": 4, "orientationAngle": 4,
             "orientationProj": 4, "tilt": 4, "spinAngle": 4, "eulerPhi": 4, "eulerTheta": 4, "eulerPsi": 4,
             "distance_fit": 4}


def render_component(c, indent="  ", index_groups=None, name=None, coeff=None, exp=None):
    lines = ["%s%s {" % (indent, c["type"])]
    if name:
        lines.append("%s  name %s" % (indent, name))
    if coeff is not None and coeff != 1.0:
        lines.append("%s  componentCoeff %s" % (indent, fmt(coeff)))
    if exp is not None and exp != 1:
        lines.append("%s  componentExp %d" % (indent, exp))
    for k, v in c["kv"].items():
        lines.append("%s  %s %s" % (indent, k, v))
    for key, g in c["groups"]:
        lines.append(render_group(key, g, indent + "  ", index_groups))
    for sub in c.get("subcvs", []):
        lines.append(render_component(sub["comp"], indent + "  ", index_groups, name=sub.get("name"),
                                      coeff=sub.get("coeff")))
    lines.append("%s}" % indent)
    return "\n".join(lines)


# ---------------------------------------------------------------------------------------
# variables

@st.composite
def scalar_colvar(draw, sysd, name="cv1", max_comps=3, types=None, allow_exp=True, allow_scripted=True):
    avail = [t for t in (types or list(SCALAR_COMPONENTS)) if sysd["natoms"] >= MIN_ATOMS.get(t, 4)]
    ncomp = draw(st.sampled_from([1, 1, 1, 2, 2, 3][: 3 + max_comps]))
    comps = []
    for i in range(ncomp):
        t = draw(st.sampled_from(avail))
        c = draw(SCALAR_COMPONENTS[t](sysd))
        coeff = draw(st.sampled_from([1.0, 1.0, -1.0, None]))
        if coeff is None:
            coeff = rnd(draw(fl(0.3, 3.0)) * draw(st.sampled_from([1, -1])), 4)
        exp = draw(st.sampled_from([1, 1, 1, 2, 3])) if allow_exp else 1
        comps.append({"comp": c, "coeff": coeff, "exp": exp, "tkey": t})
    cv = {"name": name, "comps": comps, "vtype": SCALAR}
    if allow_scripted and ncomp >= 2 and draw(st.integers(0, 5)) == 0:
        cv["scripted"] = draw(st.sampled_from(["vsum", "vprod", "vsumsq"]))
        for c in comps:
            c["coeff"], c["exp"] = 1.0, 1
    # same rule as colvar::init: homogeneous (coefficients +-1, exponents 1, not scripted), all periodic, same period
    pers = [c["comp"].get("periodic") for c in comps]
    if not cv.get("scripted") and all(c["exp"] == 1 and abs(c["coeff"]) == 1.0 for c in comps) and \
            all(pers) and len(set(pers)) == 1:
        cv["periodic"] = pers[0]
    return cv


@st.composite
def nonscalar_colvar(draw, sysd, name="cv1", types=None):
    avail = [t for t in (types or list(NONSCALAR_COMPONENTS)) if sysd["natoms"] >= MIN_ATOMS.get(t, 4)]
    t = draw(st.sampled_from(avail))
    c = draw(NONSCALAR_COMPONENTS[t](sysd))
    return {"name": name, "comps": [{"comp": c, "coeff": 1.0, "exp": 1, "tkey": t}], "vtype": c["vtype"],
            "vsize": c.get("vsize")}


def render_colvar(cv, index_groups=None, extra=None):
    lines = ["colvar {", "  name %s" % cv["name"]]
    for k, v in (cv.get("kv") or {}).items():
        lines.append("  %s %s" % (k, v))
    for k, v in (extra or {}).items():
        lines.append("  %s %s" % (k, v))
    if cv.get("scripted"):
        lines.append("  scriptedFunction %s" % cv["scripted"])
    for i, c in enumerate(cv["comps"]):
        lines.append(render_component(c["comp"], "  ", index_groups, name=c.get("name"),
                                      coeff=c["coeff"], exp=c["exp"]))
    lines.append("}")
    return "\n".join(lines)


def render_index_file(index_groups):
    out = []
    for name, atoms in index_groups:
        out.append("[ %s ]" % name)
        out.append(" ".join(str(a) for a in atoms))
    return "\n".join(out) + "\n"


# ---------------------------------------------------------------------------------------
# case-file helpers

def groups_of_component(c):
    out = []
    for _, g in c["groups"]:
        a = list(g.get("atoms", [])) + list(g.get("fitgroup", []))
        if a:
            out.append(a)
    if c.get("atoms"):
        out.append(list(c["atoms"]))
    for sub in c.get("subcvs", []):
        out.extend(groups_of_component(sub["comp"]))
    return out


def uses_fit(cvs):
    for cv in cvs:
        for c in cv["comps"]:
            for _, g in c["comp"]["groups"]:
                if g.get("center") or g.get("rotate"):
                    return True
    return False


def lattice_shifted_positions(sysd, cvs, shifts):
    """positions with every connected cluster of atoms (atoms linked by belonging to the same group, fitting groups
    included) displaced as a whole by a lattice vector; shifts[i] is the integer triple used for the cluster whose
    smallest atom is i"""
    n = sysd["natoms"]
    parent = list(range(n))

    def find(a):
        while parent[a] != a:
            parent[a] = parent[parent[a]]
            a = parent[a]
        return a
    for cv in cvs:
        for c in cv["comps"]:
            for grp in groups_of_component(c["comp"]):
                for a in grp[1:]:
                    ra, rb = find(grp[0] - 1), find(a - 1)
                    if ra != rb:
                        parent[max(ra, rb)] = min(ra, rb)
    pos = []
    for a in range(n):
        r = find(a)
        sh = shifts[r]
        pos.append([sysd["pos"][a][k] + sh[k] * sysd["cell"][k] for k in range(3)])
    return pos


def case_header(sysd, tf_mode=0, extra=()):
    from .core import fnum
    L = ["natoms %d" % sysd["natoms"],
         "masses " + " ".join(fnum(m) for m in sysd["masses"]),
         "charges " + " ".join(fnum(q) for q in sysd["charges"]),
         "tf_mode %d" % tf_mode]
    L.extend(extra)
    if sysd.get("cell"):
        L.append("cell ortho " + " ".join(fnum(x) for x in sysd["cell"]))
    return L


def pos_line(pos):
    from .core import fnum
    return "pos " + " ".join(fnum(c) for p in pos for c in p)


def config_block(text, tag="ENDCFG"):
    return "config <<%s\n%s\n%s" % (tag, text, tag)
