"""Bias spec generation/rendering.  A bias spec is a dict; centers etc. are expressed relative to the
current value of the variables (obtained from a first pass) so that the interesting regimes are hit
by construction."""
import math
from hypothesis import strategies as st
from .gen import fl, rnd, fmt, SCALAR, VEC3, UNIT3, QUAT, VECN


def cvval_text(vtype, v):
    if vtype == SCALAR:
        return fmt(v[0])
    return "(" + ", ".join(fmt(x) for x in v) + ")"


def normalize(v):
    n = math.sqrt(sum(c * c for c in v))
    return [c / n for c in v]


def shifted_center(cv, value, off):
    """a centre at 'off' (list, same length as value) from the current value, kept on the manifold"""
    vt = cv["vtype"]
    c = [value[i] + off[i % len(off)] for i in range(len(value))]
    if vt in (UNIT3, QUAT):
        c = normalize(c)
    return c


def vecn_last(cvs, idx):
    """historical: the generic-vector extractor used to leave its closing parenthesis unread, so that a generic vector could
    only be the last value of a "centers" list; repaired in /repo (fix 9dbe3854), so any order is generated now"""
    return list(idx)


@st.composite
def harmonic(draw, cvs, name="h1", max_cvs=2):
    idx = draw(st.lists(st.integers(0, len(cvs) - 1), min_size=1, max_size=min(max_cvs, len(cvs)), unique=True))
    idx = vecn_last(cvs, idx)
    offs = []
    for i in idx:
        cv = cvs[i]
        per = cv.get("periodic")
        if per:
            offs.append([rnd(draw(fl(-0.4, 0.4)) * per, 4)])
        elif cv["vtype"] == SCALAR:
            offs.append([rnd(draw(fl(-2.0, 2.0)), 4)])
        else:
            n = {VEC3: 3, UNIT3: 3, QUAT: 4}.get(cv["vtype"], cv.get("vsize") or 3)
            offs.append([rnd(draw(fl(-0.5, 0.5)), 4) for _ in range(n)])
    return {"type": "harmonic", "name": name, "cvs": idx, "offs": offs, "k": rnd(draw(fl(0.1, 20.0)), 4)}


@st.composite
def harmonic_walls(draw, cvs, name="w1"):
    scal = [i for i, c in enumerate(cvs) if c["vtype"] == SCALAR]
    idx = draw(st.lists(st.sampled_from(scal), min_size=1, max_size=min(2, len(scal)), unique=True))
    # wall position relative to the value: negative "lo_off" means lower wall above the value (wall active)
    sides = draw(st.sampled_from(["lower", "upper", "both"]))
    if any(cvs[i].get("periodic") for i in idx):
        sides = "both"   # required by the code for periodic variables
    lo, up = [], []
    for i in idx:
        per = cvs[i].get("periodic")
        scale = 0.2 * per if per else 2.0
        a = rnd(draw(fl(-1.0, 1.0)) * scale, 4)
        # for a periodic variable the allowed interval may cover most of the period: the nearer wall can then be the one across
        # the periodic boundary
        gap = rnd(draw(fl(0.1, 4.5 if per else 1.0)) * scale, 4)
        lo.append(a)          # lower wall at value + a
        up.append(a + gap)    # upper wall at value + a + gap
    return {"type": "harmonicWalls", "name": name, "cvs": idx, "sides": sides, "lo": lo, "up": up,
            "klo": rnd(draw(fl(0.1, 20.0)), 4), "kup": rnd(draw(fl(0.1, 20.0)), 4)}


@st.composite
def linear(draw, cvs, name="l1"):
    idx = draw(st.lists(st.integers(0, len(cvs) - 1), min_size=1, max_size=min(2, len(cvs)), unique=True))
    idx = [i for i in idx if cvs[i]["vtype"] not in (UNIT3, QUAT)] or \
        [i for i, c in enumerate(cvs) if c["vtype"] not in (UNIT3, QUAT)][:1]
    idx = [i for i in idx if not cvs[i].get("periodic")] or \
        [i for i, c in enumerate(cvs) if c["vtype"] not in (UNIT3, QUAT) and not c.get("periodic")][:1]
    if not idx:
        return None
    idx = vecn_last(cvs, idx)
    offs = []
    for i in idx:
        cv = cvs[i]
        n = 1 if cv["vtype"] == SCALAR else {VEC3: 3, UNIT3: 3, QUAT: 4}.get(cv["vtype"], cv.get("vsize") or 3)
        offs.append([rnd(draw(fl(-1, 1)), 4) for _ in range(n)])
    return {"type": "linear", "name": name, "cvs": idx, "offs": offs, "k": rnd(draw(fl(-10.0, 10.0)), 4)}


@st.composite
def histogram_restraint(draw, cvs, name="hr1"):
    ok = [i for i, c in enumerate(cvs) if (c["vtype"] == SCALAR and not c.get("periodic")) or c["vtype"] == VECN]
    i = draw(st.sampled_from(ok))
    nb = draw(st.integers(3, 8))
    ref = [rnd(draw(fl(0.0, 1.0)), 4) for _ in range(nb)]
    if sum(ref) < 0.1:
        ref[0] = 1.0
    return {"type": "histogramRestraint", "name": name, "cvs": [i], "nbins": nb, "ref": ref,
            "width": draw(st.sampled_from([0.25, 0.5, 0.75, 1.0, 1.5])), "lo_off": rnd(draw(fl(0.2, 0.8)), 3),
            "k": rnd(draw(fl(0.5, 50.0)), 3), "gw": rnd(draw(fl(0.5, 2.0)), 3)}


def render_bias(b, cvs, values, widths=None):
    """values: list (per cv) of current values as lists"""
    t = b["type"]
    names = " ".join(cvs[i]["name"] for i in b["cvs"])
    L = ["%s {" % t, "  name %s" % b["name"], "  colvars %s" % names]
    if t == "harmonic" or t == "linear":
        cs = [cvval_text(cvs[i]["vtype"], shifted_center(cvs[i], values[i], off)) for i, off in zip(b["cvs"], b["offs"])]
        L.append("  centers " + " ".join(cs))
        L.append("  forceConstant %s" % fmt(b["k"]))
    elif t == "harmonicWalls":
        def wall(i, a):
            # walls are written unwrapped (the library requires upper > lower numerically also for periodic variables)
            return values[i][0] + a
        if b["sides"] in ("lower", "both"):
            L.append("  lowerWalls " + " ".join(fmt(wall(i, a)) for i, a in zip(b["cvs"], b["lo"])))
            L.append("  lowerWallConstant %s" % fmt(b["klo"]))
        if b["sides"] in ("upper", "both"):
            L.append("  upperWalls " + " ".join(fmt(wall(i, a)) for i, a in zip(b["cvs"], b["up"])))
            L.append("  upperWallConstant %s" % fmt(b["kup"]))
    elif t == "histogramRestraint":
        i = b["cvs"][0]
        v = values[i]
        lo = math.floor((min(v) - b["lo_off"] * b["nbins"] * b["width"]) * 8.0) / 8.0
        L.append("  lowerBoundary %s" % fmt(lo))
        L.append("  upperBoundary %s" % fmt(lo + b["nbins"] * b["width"]))
        L.append("  width %s" % fmt(b["width"]))
        L.append("  gaussianSigma %s" % fmt(b["gw"] * b["width"]))
        L.append("  refHistogram " + " ".join(fmt(x) for x in b["ref"]))
        L.append("  forceConstant %s" % fmt(b["k"]))
    for k, v in b.get("kv", {}).items():
        L.append("  %s %s" % (k, v))
    L.append("}")
    return "\n".join(L)
