"""C09: configuration parsing is total (libFuzzer), strict and layout-independent (Hypothesis)."""
import math
import os
import re
from hypothesis import strategies as st
from lib import fuzzrun, gen, cvz, zoo
from lib.core import BUILD, Outcome, run_case, pct
import c01_forces

ID = "C09"
LEVEL = "exploration"
RULE = ("(totality) libFuzzer (ASan+UBSan, fork=16) mutates the repository's 89 test configurations with a keyword dictionary "
        "extracted from the sources; each input is parsed by a fresh module, stepped 3 times, outputs written, then the "
        "module is reset and a canonical configuration must still give the right value (oracle inside the target).  "
        "(strict) Hypothesis generates valid configurations (the C01 generator: 1-2 variables of 1-3 components with atom-group "
        "options, 1-2 biases; and the bias zoo) and applies ONE keyword-level mutation: a keyword misspelled into a name that "
        "exists nowhere, a keyword that is valid only in another kind of block, a deleted/added brace, a numeric or string "
        "keyword left without value, a numeric token replaced by or fused with text ('abc', '1.5x', '0x10'); oracle: the "
        "configuration must be rejected (non-zero return or error flag).  (layout) the same configurations rewritten in the "
        "documented free aspects (keyword case, spaces/tabs, blank lines, full-line and trailing comments, CRLF, one-line blocks "
        "split over lines and vice versa, boolean spellings on/yes/true, off/no/false, bare keyword); oracle: metamorphic - "
        "the return code and the full trace of 2 steps are bit-identical to the original.  evaluations = executions + cases; "
        "non-trivial: the mutation hit a keyword inside a nested block (strict); >=3 kinds of rewrite applied and a non-zero "
        "force (layout).")
ASSUMPTIONS = ["fuzzing samples the space of byte strings; hangs are reported only if an input never completes in 90 s",
               "letter case is free for keywords only (values such as on/off and names are case-sensitive, as observed and documented)"]
BUILD_TARGETS = ["rel", "asan"]
SECONDS = {"quick": 60, "thorough": 900}


def runner_totality(tier, seed):
    return fuzzrun.campaign(ID, "totality", "fuzz_config", tier, seed, SECONDS[tier],
                            corpus_dirs=[os.path.join(BUILD, "fuzz", "seed_config")],
                            dict_path=os.path.join(BUILD, "fuzz", "config.dict"))


# ------------------------------------------------------------------------------------------------------------
# valid configurations

@st.composite
def base_spec(draw, tier):
    if draw(st.integers(0, 3)) == 0:
        vs = draw(zoo.variables(2))
        nb = draw(st.sampled_from([1, 2]))
        bs = [draw(zoo.bias(vs, i, kinds=[k for k in zoo.BIAS_KINDS if k not in ("abf",)])) for i in range(nb)]
        if any(v["ext"] for v in vs):
            bs = [b for b in bs if b["kind"] != "alb"] or [draw(zoo.bias(vs, 0, kinds=["harmonic", "meta"]))]
        return {"zoo": {"vars": vs, "biases": bs}, "xs": [cvz_mid(v) for v in vs]}
    s = draw(c01_forces.spec_restraints(tier))
    s["shifts"] = None
    return {"rich": s}


def cvz_mid(v):
    g = v["grid"]
    return g["lower"] + 0.37 * g["n"] * g["width"]


def base_config(sp, ctx):
    """(header lines, configuration text, position lines for 2 steps) or None"""
    if "zoo" in sp:
        z = sp["zoo"]
        nat = len(z["vars"]) + 1
        head = cvz.header(nat, 0, temperature=300.0) + ["gauss 0.3"]
        p1 = cvz.pos_line_z(sp["xs"], nat)
        p2 = cvz.pos_line_z([x + 0.11 for x in sp["xs"]], nat)
        return head, zoo.render(z), [p1, p2]
    s = sp["rich"]
    sysd = s["sys"]
    head = gen.case_header(sysd)
    pos0 = [list(p) for p in sysd["pos"]]
    cfg1 = c01_forces.build_config(s, None, ctx["workdir"], with_biases=False)
    r1 = run_case("\n".join(head + [gen.config_block(cfg1), gen.pos_line(pos0), "step"]) + "\n")
    if r1.crashed or r1.of("config")[0]["rc"] != 0 or not r1.of("step") or r1.of("step")[0]["errbits"]:
        return None
    values = c01_forces.values_of(r1.of("step")[0])
    if any(not math.isfinite(x) for v in values for x in v):
        return None
    cfg = c01_forces.build_config(s, values, ctx["workdir"])
    pos1 = [[c + 0.03 * ((a + k) % 3 - 1) for k, c in enumerate(p)] for a, p in enumerate(pos0)]
    return head, cfg, [gen.pos_line(pos0), gen.pos_line(pos1)]


def run_cfg(head, cfg, poslines, raw=False):
    L = list(head)
    L.append("configraw " + pct(cfg) if raw else gen.config_block(cfg, "ENDCFG9"))
    for p in poslines:
        L += [p, "step"]
    case = "\n".join(L) + "\n"
    return case, run_case(case)


# ------------------------------------------------------------------------------------------------------------
# line model of the rendered configurations

NUM = r"[-+]?(?:\d+\.?\d*|\.\d+)(?:[eE][-+]?\d+)?"
RX_OPEN = re.compile(r"^(\s*)([A-Za-z_]\w*)\s*\{\s*$")
RX_ONELINE = re.compile(r"^(\s*)([A-Za-z_]\w*)\s*\{(.*)\}\s*$")
RX_KV = re.compile(r"^(\s*)([A-Za-z_]\w*)(\s+)(\S.*?)\s*$")
RX_BARE = re.compile(r"^(\s*)([A-Za-z_]\w*)\s*$")
BOOL_T, BOOL_F = ("on", "yes", "true"), ("off", "no", "false")


def classify(lines):
    """per line: (kind, indent, keyword, value, depth, stack of enclosing block keywords)"""
    out = []
    stack = []
    for ln in lines:
        if not ln.strip():
            out.append(("blank", "", None, None, len(stack), tuple(stack)))
            continue
        if ln.strip() == "}":
            if stack:
                stack.pop()
            out.append(("close", ln[:len(ln) - len(ln.lstrip())], None, None, len(stack), tuple(stack)))
            continue
        m = RX_OPEN.match(ln)
        if m:
            out.append(("open", m.group(1), m.group(2), None, len(stack), tuple(stack)))
            stack.append(m.group(2))
            continue
        m = RX_ONELINE.match(ln)
        if m and "{" not in m.group(3) and "}" not in m.group(3):
            out.append(("oneline", m.group(1), m.group(2), m.group(3).strip(), len(stack), tuple(stack)))
            continue
        m = RX_KV.match(ln)
        if m and "{" not in ln and "}" not in ln:
            out.append(("kv", m.group(1), m.group(2), m.group(4), len(stack), tuple(stack)))
            continue
        m = RX_BARE.match(ln)
        if m:
            out.append(("bare", m.group(1), m.group(2), None, len(stack), tuple(stack)))
            continue
        out.append(("other", "", None, None, len(stack), tuple(stack)))
    return out


def _known_keywords():
    """every keyword literal of the sources (lower case), to avoid 'mutations' that produce another valid keyword"""
    import glob
    kws = set()
    for f in glob.glob("/repo/src/*.cpp") + glob.glob("/repo/src/*.h"):
        try:
            txt = open(f, errors="replace").read()
        except OSError:
            continue
        for m in re.finditer(r'(?:get_keyval|key_lookup|get_keyval_feature)\s*\([^"]*"([A-Za-z_0-9]+)"', txt):
            kws.add(m.group(1).lower())
    return kws


KNOWN_KEYWORDS = _known_keywords()

BIAS_KW = ("harmonic", "harmonicwalls", "linear", "histogramrestraint", "abmd", "metadynamics", "abf", "opes_metad", "alb", "histogram")
WRONG_CONTEXT = {
    # keywords that exist, but not in this kind of block
    "colvar": ["forceConstant 1.0", "hillWeight 0.1", "centers 1.0", "atomNumbers 1", "newHillFrequency 10", "fullSamples 5"],
    "bias": ["atomNumbers 1 2", "componentCoeff 1.0", "extendedLagrangian on", "centerToReference on", "cutoff 3.0", "oneSiteTotalForce on"],
    "group": ["forceConstant 1.0", "width 0.5", "hillWeight 0.1", "lowerBoundary 0.0", "componentExp 2"],
    "component": ["forceConstant 1.0", "hillWeight 0.1", "lowerBoundary 0.0", "extendedLagrangian on", "centers 1.0"],
    "top": ["width 0.5", "forceConstant 1.0", "atomNumbers 1", "hillWeight 0.1"],
}


def block_kind(stack):
    if not stack:
        return "top"
    s0 = stack[0].lower()
    if len(stack) == 1:
        return "colvar" if s0 == "colvar" else ("bias" if s0 in BIAS_KW else None)
    if s0 == "colvar" and len(stack) == 2:
        return "component"
    if s0 == "colvar" and len(stack) == 3 and stack[-1].lower() not in ("fittinggroup",):
        return "group"
    return None


@st.composite
def spec_strict(draw, tier):
    sp = draw(base_spec(tier))
    sp["mut"] = draw(st.sampled_from(["misspell", "misspell", "truncate", "truncate", "context", "brace_del", "brace_add", "brace_extra", "novalue", "text", "text", "fuse", "hex"]))
    sp["pick"] = draw(st.integers(0, 10 ** 6))
    sp["pick2"] = draw(st.integers(0, 10 ** 6))
    return sp


def check_strict(sp, ctx):
    b = base_config(sp, ctx)
    if b is None:
        return Outcome(discard=True)
    head, cfg, poslines = b
    case0, r0 = run_cfg(head, cfg, poslines[:1])
    if r0.crashed or r0.of("config")[0]["rc"] != 0 or r0.of("config")[0]["errbits"]:
        return Outcome(False, msg="base configuration rejected: %s" % (r0.of("config")[:1]), sig="gen_invalid", case_text=case0)
    lines = cfg.split("\n")
    cl = classify(lines)
    mut = sp["mut"]
    k = None
    what = ""
    new = list(lines)

    def choose(cands):
        return cands[sp["pick"] % len(cands)] if cands else None
    if mut == "misspell":
        k = choose([i for i, c in enumerate(cl) if c[0] in ("kv", "open", "oneline", "bare")])
        if k is None:
            return Outcome(discard=True)
        kw = cl[k][2]
        new[k] = lines[k].replace(kw, kw + "Q", 1)
        what = "keyword '%s' misspelled as '%sQ' in %s" % (kw, kw, "/".join(cl[k][5]) or "the global scope")
    elif mut == "truncate":
        # the keyword loses its last 1-3 letters (a prefix of a valid keyword is not a keyword)
        cands = [i for i, c in enumerate(cl) if c[0] in ("kv", "bare") and len(c[2]) >= 6]
        k = choose(cands)
        if k is None:
            return Outcome(discard=True)
        kw = cl[k][2]
        cutn = 1 + sp["pick2"] % 3
        short = kw[:-cutn]
        # must not be a keyword of its own (e.g. "centers" vs "center...", "lowerWall" vs "lowerWalls")
        if short.lower() in KNOWN_KEYWORDS:
            return Outcome(discard=True)
        new[k] = lines[k].replace(kw, short, 1)
        what = "keyword '%s' truncated to '%s' in %s" % (kw, short, "/".join(cl[k][5]) or "the global scope")
    elif mut == "context":
        cands = [i for i, c in enumerate(cl) if c[0] in ("kv", "bare") and block_kind(c[5])] + [i for i, c in enumerate(cl) if c[0] == "open" and c[4] == 0]
        k = choose(cands)
        if k is None:
            return Outcome(discard=True)
        kind = block_kind(cl[k][5]) if cl[k][0] != "open" else "top"
        ins = WRONG_CONTEXT[kind][sp["pick2"] % len(WRONG_CONTEXT[kind])]
        if kind == "bias" and cl[k][5][0].lower() == "histogramrestraint" and ins.split()[0] in ("width", "lowerBoundary"):
            return Outcome(discard=True)
        new.insert(k, cl[k][1] + ins)
        what = "keyword '%s' (valid elsewhere) placed in %s" % (ins.split()[0], "/".join(cl[k][5]) or "the global scope")
    elif mut == "brace_del":
        k = choose([i for i, c in enumerate(cl) if c[0] == "close"])
        if k is None:
            return Outcome(discard=True)
        del new[k]
        what = "closing brace of line %d deleted" % (k + 1)
    elif mut == "brace_add":
        k = choose([i for i, c in enumerate(cl) if c[0] == "kv"])
        if k is None:
            return Outcome(discard=True)
        new[k] = lines[k] + " {"
        what = "opening brace appended to '%s'" % lines[k].strip()
    elif mut == "brace_extra":
        k = choose([i for i, c in enumerate(cl) if c[0] == "close"])
        if k is None:
            return Outcome(discard=True)
        new.insert(k, "}")
        what = "extra closing brace before line %d" % (k + 1)
    elif mut == "novalue":
        k = choose([i for i, c in enumerate(cl) if c[0] == "kv" and c[3] not in BOOL_T + BOOL_F])
        if k is None:
            return Outcome(discard=True)
        new[k] = cl[k][1] + cl[k][2]
        what = "keyword '%s' (value '%s') left without a value in %s" % (cl[k][2], cl[k][3], "/".join(cl[k][5]) or "the global scope")
    else:
        cands = [i for i, c in enumerate(cl) if c[0] == "kv" and re.fullmatch(r"(?:%s)(?:\s+(?:%s))*" % (NUM, NUM), c[3])]
        k = choose(cands)
        if k is None:
            return Outcome(discard=True)
        toks = cl[k][3].split()
        j = sp["pick2"] % len(toks)
        toks[j] = {"text": "abc", "fuse": toks[j] + "x", "hex": "0x10"}[mut]
        new[k] = cl[k][1] + cl[k][2] + " " + " ".join(toks)
        what = "number %d of '%s %s' replaced by '%s' in %s" % (j + 1, cl[k][2], cl[k][3], toks[j], "/".join(cl[k][5]) or "the global scope")
    mcfg = "\n".join(new)
    case, r = run_cfg(head, mcfg, poslines[:1])
    if r.crashed:
        return Outcome(False, msg="crash on a mutated configuration (%s): %s" % (what, r.stderr[-500:]), sig="strict_crash", case_text=case)
    c = r.of("config")[0]
    kwname = (cl[k][2] if k is not None and k < len(cl) and cl[k][2] else "")
    if c["rc"] == 0 and c["errbits"] == 0:
        ctxk = block_kind(cl[min(k, len(cl) - 1)][5]) or "nested"
        return Outcome(False, msg="the configuration is accepted without any error although %s" % what,
                       sig="strict:%s:%s:%s" % (mut, ctxk, kwname.lower() if mut in ("novalue", "text", "fuse", "hex", "misspell", "truncate") else ""), case_text=case)
    depth = cl[min(k, len(cl) - 1)][4]
    return Outcome(True, nontrivial=depth >= 2, cls=(mut, "zoo" if "zoo" in sp else "rich", "d%d" % min(depth, 3)), strata=["strict", "mut:" + mut],
                   case_text=case)


# ------------------------------------------------------------------------------------------------------------
# layout

@st.composite
def spec_layout(draw, tier):
    sp = draw(base_spec(tier))
    sp["ops"] = draw(st.lists(st.sampled_from(["case", "ws", "blank", "comment", "tcomment", "crlf", "split", "join", "bool"]), min_size=2, max_size=7, unique=True))
    sp["bits"] = [draw(st.integers(0, 2 ** 30)) for _ in range(4)]
    return sp


def rnd_bits(seed):
    x = seed or 1
    while True:
        x = (x * 1103515245 + 12345) & 0x7fffffff
        yield x >> 8


def rewrite(cfg, ops, bits):
    lines = cfg.split("\n")
    R = rnd_bits(bits[0])
    applied = set()
    # structural rewrites first (they work on the classified lines)
    if "split" in ops or "join" in ops:
        cl = classify(lines)
        out = []
        i = 0
        while i < len(lines):
            c = cl[i]
            if "split" in ops and c[0] == "oneline" and next(R) % 2:
                out += [c[1] + c[2] + " {", c[1] + "  " + c[3], c[1] + "}"]
                applied.add("split")
            elif ("join" in ops and c[0] == "open" and i + 2 < len(lines) and cl[i + 1][0] in ("kv", "bare") and cl[i + 2][0] == "close"
                  and next(R) % 2):
                out.append(c[1] + c[2] + " { " + lines[i + 1].strip() + " }")
                i += 2
                applied.add("join")
            else:
                out.append(lines[i])
            i += 1
        lines = out
    cl = classify(lines)
    out = []
    for ln, c in zip(lines, cl):
        kind, ind, kw, val = c[0], c[1], c[2], c[3]
        if kind in ("kv", "bare", "open", "oneline") and kw:
            k2 = kw
            if "case" in ops:
                m = next(R) % 4
                k2 = [kw, kw.upper(), kw.lower(), "".join(ch.upper() if (next(R) % 2) else ch.lower() for ch in kw)][m]
                if k2 != kw:
                    applied.add("case")
            if "bool" in ops and kind == "kv" and val in BOOL_T + BOOL_F:
                grp = BOOL_T if val in BOOL_T else BOOL_F
                v2 = grp[next(R) % 3]
                if val in BOOL_T and next(R) % 4 == 0:
                    v2 = None        # bare keyword = on
                if v2 != val:
                    applied.add("bool")
                val = v2
                if val is None:
                    kind = "bare"
            if "bool" in ops and kind == "bare" and val is None and c[0] == "bare" and False:
                pass
            sep = " "
            if "ws" in ops:
                ind = ["", " ", "\t", "      ", " \t "][next(R) % 5]
                sep = [" ", "\t", "   ", " \t"][next(R) % 4]
                applied.add("ws")
            if kind == "kv":
                ln = ind + k2 + sep + val
            elif kind == "bare":
                ln = ind + k2
            elif kind == "open":
                ln = ind + k2 + sep + "{"
            else:
                ln = ind + k2 + sep + "{" + sep + val + sep + "}"
            if "ws" in ops and next(R) % 3 == 0:
                ln += "  \t"[: 1 + next(R) % 3]
            if "tcomment" in ops and kind in ("kv", "bare") and next(R) % 3 == 0:
                ln += " # trailing comment { with } braces and 12 numbers"
                applied.add("tcomment")
        elif kind == "close" and "ws" in ops:
            ln = ["", "  ", "\t"][next(R) % 3] + "}"
        out.append(ln)
        if "blank" in ops and next(R) % 4 == 0:
            out.append(["", "   ", "\t"][next(R) % 3])
            applied.add("blank")
        if "comment" in ops and next(R) % 5 == 0:
            out.append(["# a comment", "  # indented comment with keyword width 0.1", "#"][next(R) % 3])
            applied.add("comment")
    eol = "\n"
    if "crlf" in ops:
        eol = "\r\n"
        applied.add("crlf")
    return eol.join(out) + eol, applied


def strip_rec(r):
    return {k: v for k, v in r.items() if k != "errs"}


def check_layout(sp, ctx):
    b = base_config(sp, ctx)
    if b is None:
        return Outcome(discard=True)
    head, cfg, poslines = b
    case0, r0 = run_cfg(head, cfg + "\n", poslines, raw=True)
    if r0.crashed or r0.of("config")[0]["rc"] != 0 or r0.of("config")[0]["errbits"]:
        return Outcome(False, msg="base configuration rejected: %s" % (r0.of("config")[:1]), sig="gen_invalid", case_text=case0)
    cfg2, applied = rewrite(cfg, sp["ops"], sp["bits"])
    case, r = run_cfg(head, cfg2, poslines, raw=True)
    if r.crashed:
        return Outcome(False, msg="crash on a re-formatted configuration: %s" % r.stderr[-500:], sig="layout_crash", case_text=case)
    tag = "[rewrites: %s]" % ",".join(sorted(applied))
    c0, c1 = r0.of("config")[0], r.of("config")[0]
    if (c1["rc"], c1["errbits"]) != (c0["rc"], c0["errbits"]):
        why = "+".join(sorted(applied))
        return Outcome(False, msg="a configuration that differs only in layout %s is rejected: %s\n--- rewritten configuration ---\n%s" % (
            tag, c1["errs"], cfg2[:3000]), sig="layout_rejected:" + (why if len(applied) <= 2 else "multi"), case_text=case)
    for x, y in zip(r0.of("step"), r.of("step")):
        if strip_rec(x) != strip_rec(y):
            diff = [k for k in x if k != "errs" and x[k] != y.get(k)]
            return Outcome(False, msg="a configuration that differs only in layout %s gives different results at step %d in %s: %s vs %s\n"
                           "--- rewritten configuration ---\n%s" % (tag, x["it"], diff, {k: x[k] for k in diff}, {k: y.get(k) for k in diff}, cfg2[:3000]),
                           sig="layout_differs:" + ("+".join(sorted(applied)) if len(applied) <= 2 else "multi"), case_text=case)
    forced = any(any(abs(c) > 0 for f in s["F"] for c in f) for s in r.of("step"))
    return Outcome(True, nontrivial=len(applied) >= 3 and forced, cls=("zoo" if "zoo" in sp else "rich",) + tuple(sorted(applied)),
                   strata=["layout"] + ["rw:" + a for a in applied], case_text=case)


def view(spec):
    d = {k: v for k, v in spec.items() if k not in ("rich", "zoo")}
    d["base"] = "zoo" if "zoo" in spec else "rich"
    return d


REQUIRED_STRATA = {"all": ["strict:mut:misspell", "strict:mut:truncate", "strict:mut:context", "strict:mut:brace_del", "strict:mut:brace_add", "strict:mut:brace_extra",
                           "strict:mut:novalue", "strict:mut:text", "strict:mut:fuse", "strict:mut:hex"] +
                   ["layout:rw:" + a for a in ("case", "ws", "blank", "comment", "tcomment", "crlf", "split", "join", "bool")]}

PARTS = {
    "totality": {"runner": runner_totality, "replay": fuzzrun.replay_fuzz},
    "strict": {"strategy": spec_strict, "check": check_strict, "examples": {"quick": 3200, "thorough": 30000}, "sample": view},
    "layout": {"strategy": spec_layout, "check": check_layout, "examples": {"quick": 2400, "thorough": 20000}, "sample": view},
}
