"""C09: configuration parsing is total (libFuzzer), strict and layout-independent (Hypothesis)."""
import os
from lib import fuzzrun
from lib.core import BUILD

ID = "C09"
LEVEL = "exploration"
RULE = ("(totality) libFuzzer (ASan+UBSan, fork=16) mutates the repository's 89 test configurations with a keyword dictionary "
        "extracted from the sources; each input is parsed by a fresh module, stepped 3 times, outputs written, then the "
        "module is reset and a canonical configuration must still give the right value (oracle inside the target); "
        "evaluations = executions, distinct_nontrivial = inputs kept in the corpus because they reached new coverage.")
ASSUMPTIONS = ["fuzzing samples the space of byte strings; hangs are reported only if an input never completes in 90 s"]
BUILD_TARGETS = ["rel", "asan"]
SECONDS = {"quick": 60, "thorough": 900}


def runner_totality(tier, seed):
    return fuzzrun.campaign(ID, "totality", "fuzz_config", tier, seed, SECONDS[tier],
                            corpus_dirs=[os.path.join(BUILD, "fuzz", "seed_config")],
                            dict_path=os.path.join(BUILD, "fuzz", "config.dict"))


PARTS = {"totality": {"runner": runner_totality, "replay": fuzzrun.replay_fuzz}}
