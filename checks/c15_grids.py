"""C15: every sample lands in exactly one grid bin; grid files round-trip."""
import itertools
import math
import os
from hypothesis import strategies as st
from lib import cvz, rcrun
from lib.gen import fl, rnd, fmt
from lib.core import Outcome, run_case, fnum

ID = "C15"
LEVEL = "exploration"
RULE = ("(binning) Hypothesis generates 1-3 controlled scalar variables (periodic or not) with grids taken from the variable's "
        "boundaries or from a custom grid block, or a gathered vector variable (cartesian coordinates of 1-2 atoms, optional "
        "weights), value sequences placed exactly on bin edges (binary-exact), inside bins, just outside and far outside the "
        "boundaries, a run boundary and stepZeroData; oracle: numpy-free Python model of half-open bins [lower+i w, lower+(i+1) w) "
        "with the variable's own wrapping; counts per bin equal exactly, total = number of in-range samples at eligible steps. "
        "(files) rapidcheck: count/scalar/gradient grids of generated shapes (1-3 D, sizes 1-9, periodic flags) written and read "
        "back in multicolumn, restart (text and binary stream) and raw form: same sizes, boundaries, widths, periodicity and data. "
        "Non-trivial: >=1 sample on an edge and >=1 outside (binning); >=2 dimensions of different sizes (files).")
ASSUMPTIONS = ["edge values are binary-exact multiples of the width, so that (x-lower)/width is computed without rounding"]


@st.composite
def spec_bin(draw, tier):
    # gatherVectorColvars cannot be configured in this code base (histogram enables the scalar-only 'grid' feature on
    # every variable and rejects vector variables), so the gathered-vector stratum is not generated
    vector = False
    if vector:
        nat = draw(st.integers(1, 2))
        g = draw(cvz.grid_def(3, 8))
        weights = [rnd(draw(fl(0.25, 3.0)), 2) for _ in range(3 * nat)] if draw(st.booleans()) else None
        T = draw(st.integers(3, 14))
        steps = [[draw(cvz.value_in_grid(g, outside_p=4, edge=draw(st.integers(0, 2)) == 0)) for _ in range(3 * nat)] for _ in range(T)]
        return {"vector": True, "nat": nat, "grid": g, "weights": weights, "steps": steps, "szd": False,
                "newrun": draw(st.integers(1, T - 1)) if draw(st.booleans()) else None}
    nv = draw(st.sampled_from([1, 1, 2, 3]))
    grids = [draw(cvz.grid_def(3, 7 if nv < 3 else 4)) for _ in range(nv)]
    periodic = [draw(st.integers(0, 3)) == 0 for _ in range(nv)]
    custom = draw(st.booleans())
    vgrids = grids
    if custom:
        # the variables have other boundaries than the histogram grid
        vgrids = [dict(g, lower=g["lower"] - 1.0, upper=g["upper"] + 2.0, n=g["n"] + int(3.0 / g["width"])) if not p else g
                  for g, p in zip(grids, periodic)]
    T = draw(st.integers(3, 24))
    steps = []
    for t in range(T):
        row = []
        for g in grids:
            row.append(draw(cvz.value_in_grid(g, outside_p=4, edge=draw(st.integers(0, 2)) == 0)))
        steps.append(row)
    return {"vector": False, "nv": nv, "grids": grids, "vgrids": vgrids, "periodic": periodic, "custom": custom, "steps": steps,
            "szd": draw(st.integers(0, 3)) == 0, "newrun": draw(st.integers(1, T - 1)) if draw(st.booleans()) else None}


def build(spec):
    L = []
    if spec["vector"]:
        nat = spec["nat"]
        g = spec["grid"]
        natoms = nat + 1
        cfg = ("colvar {\n  name c\n  cartesian {\n    atoms { atomNumbers %s }\n  }\n}\n" % " ".join(str(a + 1) for a in range(nat)))
        cfg += "histogram {\n  name h\n  colvars c\n  gatherVectorColvars on\n"
        if spec["weights"]:
            cfg += "  weights " + " ".join(fmt(w) for w in spec["weights"]) + "\n"
        cfg += "  grid {\n    width %s\n    lowerBoundary %s\n    upperBoundary %s\n  }\n" % (fmt(g["width"]), fmt(g["lower"]), fmt(g["upper"]))
        cfg += "}\n"
        L = cvz.header(natoms, 0) + ["config <<END\n%s\nEND" % cfg]
        for t, row in enumerate(spec["steps"]):
            if spec["newrun"] == t:
                L += ["newrun", "step"]
            coords = list(row) + [0.5] * (3 * (natoms - nat))
            L.append("pos " + " ".join(fnum(c) for c in coords))
            L.append("step")
    else:
        nv = spec["nv"]
        natoms = nv + 1
        cfg = []
        for i, (g, p) in enumerate(zip(spec["vgrids"], spec["periodic"])):
            cfg.append(cvz.zvar("z%d" % i, i + 1, g["lower"], g["upper"], g["width"], periodic=p))
        h = ["histogram {", "  name h", "  colvars " + " ".join("z%d" % i for i in range(nv))]
        if spec["custom"]:
            h += ["  grid {", "    width " + " ".join(fmt(g["width"]) for g in spec["grids"]),
                  "    lowerBoundary " + " ".join(fmt(g["lower"]) for g in spec["grids"]),
                  "    upperBoundary " + " ".join(fmt(g["upper"]) for g in spec["grids"]), "  }"]
        if spec["szd"]:
            h.append("  stepZeroData on")
        h.append("}")
        cfg.append("\n".join(h))
        L = cvz.header(natoms, 0) + ["config <<END\n%s\nEND" % "\n".join(cfg)]
        for t, row in enumerate(spec["steps"]):
            if spec["newrun"] == t:
                L += ["newrun", "step"]
            L.append(cvz.pos_line_z(row, natoms))
            L.append("step")
    L.append("savestr")
    return "\n".join(L) + "\n"


def model(spec):
    counts = {}
    info = {"edge": 0, "outside": 0, "in": 0}
    ev = []
    for t, row in enumerate(spec["steps"]):
        if spec["newrun"] == t:
            ev.append((t - 1, True, spec["steps"][t - 1]))
        ev.append((t, False, row))
    for it, cont, row in ev:
        if not ((it > 0 and not cont) or spec.get("szd")):
            continue
        if spec["vector"]:
            g = spec["grid"]
            for k, x in enumerate(row):
                b = cvz.bin_of(g, x)
                on_edge = abs((x - g["lower"]) / g["width"] - round((x - g["lower"]) / g["width"])) < 1e-12
                info["edge"] += on_edge
                if b is None:
                    info["outside"] += 1
                    continue
                info["in"] += 1
                w = spec["weights"][k] if spec["weights"] else 1.0
                counts[(b,)] = counts.get((b,), 0.0) + w
        else:
            bins = []
            for g, p, x in zip(spec["grids"], spec["periodic"], row):
                if p and spec["custom"]:
                    # the variable wraps around its own period (= its boundaries), then the custom grid is applied
                    pass
                on_edge = abs((x - g["lower"]) / g["width"] - round((x - g["lower"]) / g["width"])) < 1e-12
                info["edge"] += on_edge
                bins.append(cvz.bin_of(g, x, p))
            if any(b is None for b in bins):
                info["outside"] += 1
                continue
            info["in"] += 1
            counts[tuple(bins)] = counts.get(tuple(bins), 0.0) + 1.0
    return counts, info


def check_bin(spec, ctx):
    case = build(spec)
    r = run_case(case)
    if r.crashed:
        return Outcome(False, msg="crash %s" % r.stderr[-400:], sig="crash", case_text=case)
    if r.of("config")[0]["rc"] != 0:
        return Outcome(False, msg="configuration rejected: %s" % r.of("config")[0]["errs"], sig="gen_invalid", case_text=case)
    if any(s["errbits"] for s in r.of("step")):
        return Outcome(False, msg="step error %s" % [s["errs"] for s in r.of("step") if s["errbits"]][:1], sig="step_error", case_text=case)
    state = r.of("savestr")[0]["state"]
    body = cvz.find_block(state, "histogram")
    arr = cvz.named_array(body, "grid")
    shape = [spec["grid"]["n"]] if spec["vector"] else [g["n"] for g in spec["grids"]]
    ntot = 1
    for n in shape:
        ntot *= n
    if arr is None or len(arr) != ntot:
        return Outcome(False, msg="cannot parse the grid array (%s values, expected %d)" % (None if arr is None else len(arr), ntot),
                       sig="state_format", case_text=case)
    counts, info = model(spec)
    idx = 0
    for b in itertools.product(*[range(n) for n in shape]):
        exp = counts.get(b, 0.0)
        if abs(arr[idx] - exp) > 1e-9 * max(1.0, exp):
            return Outcome(False, msg="bin %s holds %r, the samples that fall into [lower+i*w, lower+(i+1)*w) at eligible steps give %r "
                           "(total stored %r, expected %r)" % (b, arr[idx], exp, sum(arr), sum(counts.values())), sig="bin_count", case_text=case)
        idx += 1
    cls = ("vector" if spec["vector"] else "nv%d" % spec["nv"], "custom" if spec.get("custom") else "", "per" if any(spec.get("periodic", [])) else "",
           "w" if spec.get("weights") else "", "newrun" if spec["newrun"] is not None else "", "szd" if spec.get("szd") else "")
    return Outcome(True, nontrivial=info["edge"] >= 1 and info["outside"] >= 1 and info["in"] >= 1, cls=cls,
                   strata=[c for c in cls if c] + (["edge"] if info["edge"] else []) + (["outside"] if info["outside"] else []), case_text=case)


def view(spec):
    d = {k: v for k, v in spec.items() if k != "steps"}
    d["steps_head"] = spec["steps"][:4]
    return d


def runner_files(tier, seed):
    return rcrun.run_rc(ID, "files", "rc_c15", tier, seed, {"quick": 40000, "thorough": 600000}[tier], ["files.nontrivial", "files.custom_periodicity"])


PARTS = {
    "binning": {"strategy": spec_bin, "check": check_bin, "examples": {"quick": 4800, "thorough": 40000}, "sample": view},
    "files": {"runner": runner_files, "replay": rcrun.replay_rc},
}


# --------------------------------------------------------------------------------------------
# thermodynamic-integration samples of a restraint (writeTISamples): each (value, system force) pair goes to the bin of the value at
# which the force was measured, under both force-timing conventions

@st.composite
def spec_ti(draw, tier):
    nv = draw(st.sampled_from([1, 1, 2]))
    nb = [draw(st.integers(3, 7)) for _ in range(nv)]
    T = draw(st.integers(3, 25))
    return {"nv": nv, "nb": nb, "tf": draw(st.sampled_from([1, 2, 2])), "k": rnd(draw(fl(0.2, 5.0)), 2),
            "b": [[draw(st.integers(-1, nb[i])) for i in range(nv)] for _ in range(T + 1)],
            "off": [[rnd(draw(fl(0.05, 0.45)), 3) for _ in range(nv)] for _ in range(T + 1)],
            "f": [[rnd(draw(fl(-6, 6)), 2) for _ in range(nv)] for _ in range(T + 1)], "sub": draw(st.booleans())}


def check_ti(spec, ctx):
    nv, nb = spec["nv"], spec["nb"]
    d = os.path.join(ctx["workdir"], "c15ti_%d" % os.getpid())
    os.makedirs(d, exist_ok=True)
    for f in os.listdir(d):
        os.unlink(os.path.join(d, f))
    extra = {"subtractAppliedForce": "on"} if spec["sub"] else None
    cfg = "\n".join(cvz.zvar("z%d" % i, i + 1, 0.0, 0.5 * nb[i], 0.5, extra=extra) for i in range(nv))
    cfg += "\nharmonic {\n  name h\n  colvars %s\n  centers %s\n  forceConstant %s\n  writeTISamples on\n}\n" % (
        " ".join("z%d" % i for i in range(nv)), " ".join(fmt(0.25 * nb[i]) for i in range(nv)), fmt(spec["k"]))
    nat = nv + 1
    L = cvz.header(nat, spec["tf"]) + ["outprefix ti", "config <<END\n%s\nEND" % cfg]
    xs = [[0.5 * b + o for b, o in zip(bb, oo)] for bb, oo in zip(spec["b"], spec["off"])]
    for x, f in zip(xs, spec["f"]):
        L += [cvz.pos_line_z(x, nat), cvz.fsys_line_z(f, nat), "step"]
    L.append("post_run")
    case = "\n".join(L) + "\n"
    r = run_case(case, cwd=d)
    if r.crashed:
        return Outcome(False, msg="crash %s" % r.stderr[-400:], sig="crash", case_text=case)
    if r.of("config")[0]["rc"] != 0:
        return Outcome(False, msg="configuration rejected: %s" % r.of("config")[0]["errs"], sig="gen_invalid", case_text=case)
    if any(s["errbits"] for s in r.of("step")):
        return Outcome(False, msg="step error %s" % [s["errs"] for s in r.of("step") if s["errbits"]][:1], sig="step_error", case_text=case)
    T = len(xs) - 1
    # same step: the force of step t belongs to the value of step t (t >= 1); late: what arrives at step t was measured at t-1
    pairs = [(spec["b"][t], spec["f"][t]) for t in (range(1, T + 1) if spec["tf"] == 1 else range(0, T))]
    count, tot = {}, {}
    for b, f in pairs:
        if all(0 <= b[i] < nb[i] for i in range(nv)):
            count[tuple(b)] = count.get(tuple(b), 0) + 1
            acc = tot.setdefault(tuple(b), [0.0] * nv)
            for i in range(nv):
                acc[i] += f[i]

    def rows(path):
        try:
            return [[float(v) for v in l.split()] for l in open(path) if l.strip() and not l.startswith("#")]
        except (OSError, ValueError):
            return None
    rc_, rf = rows(os.path.join(d, "ti.h.ti.count")), rows(os.path.join(d, "ti.h.ti.force"))
    if rc_ is None or rf is None:
        return Outcome(False, msg="TI sample files not written", sig="ti_files", case_text=case)
    moved = sum(1 for t in range(1, T + 1) if spec["b"][t] != spec["b"][t - 1])
    for row_c, row_f in zip(rc_, rf):
        b = tuple(int(math.floor(row_c[i] / 0.5)) for i in range(nv))
        n = int(row_c[nv])
        if n != count.get(b, 0):
            return Outcome(False, msg="bin %s: %d thermodynamic-integration samples stored; the (value, force) pairs of the run put %d there "
                           "[%s convention, %d variables, %d bin changes]" % (b, n, count.get(b, 0), "same-step" if spec["tf"] == 1 else "late", nv, moved),
                           sig="ti_count", case_text=case)
        for i in range(nv):
            exp = tot[b][i] / n if n else 0.0
            if abs(row_f[nv + i] - exp) > 1e-9 * max(1.0, abs(exp)):
                return Outcome(False, msg="bin %s variable %d: mean system force stored %r, mean of the forces measured at values in that bin %r [%s convention]" % (
                    b, i, row_f[nv + i], exp, "same-step" if spec["tf"] == 1 else "late"), sig="ti_force", case_text=case)
    return Outcome(True, nontrivial=len(count) >= 2 and moved >= 2, cls=("ti", "nv%d" % nv, "tf%d" % spec["tf"], "sub" if spec["sub"] else ""),
                   strata=["ti", "ti_tf%d" % spec["tf"]] + (["ti_late_moving"] if spec["tf"] == 2 and moved >= 2 else []), case_text=case)


PARTS["ti_samples"] = {"strategy": spec_ti, "check": check_ti, "examples": {"quick": 2000, "thorough": 20000}, "sample": lambda s: {k: v for k, v in s.items() if k not in ("off",)}}
REQUIRED_STRATA = {"all": (REQUIRED_STRATA["all"] if "REQUIRED_STRATA" in globals() else []) + ["ti_samples:ti_late_moving", "ti_samples:ti_tf1"]}
