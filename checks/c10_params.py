"""C10: invalid parameter values are reported as errors and are never fatal."""
import os
from hypothesis import strategies as st
from lib import fuzzrun, cvz, zoo
from lib.gen import fl, rnd, fmt
from lib.core import Outcome, run_case, fnum, pct, BUILD

ID = "C10"
LEVEL = "exploration"
RULE = ("(params) libFuzzer (ASan+UBSan, structure-aware): bytes choose, for every keyword of 15 curated object templates (colvar with "
        "every analysis/extended option, coordNum, harmonic, harmonicWalls, linear, histogram, abf x2, metadynamics x2, opes_metad, abmd, "
        "alb, histogramRestraint) the template value or a boundary value {0,-1,1,2,2^31,1e300,-1e300,nan,inf,1e-300, empty, wrong length, "
        "reversed, non-existent name/file}, global frequencies, the force-timing mode; then 0-6 steps with a run boundary, output files, a "
        "state save and post_run.  Oracle in the target: no signal/sanitizer report/hang/huge allocation; afterwards reset + a canonical "
        "configuration must give the right value.  (recover) Hypothesis: valid objects from the bias zoo are stepped, then 1-2 "
        "configurations that must be rejected (bad values, wrong lengths, unknown variable, duplicate name, missing atoms, syntax errors), "
        "each touching a surviving variable, are submitted; oracle: differential - the trace of the survivors after the rejection is "
        "bitwise that of a control run that never saw it, the lists of variables/biases and the number of requested atoms are unchanged, "
        "and a valid configuration submitted afterwards is accepted.  Non-trivial: the rejected configuration names a variable or atom "
        "of a survivor and at least one survivor applies a force afterwards.")
ASSUMPTIONS = ["hangs are reported only if an input does not complete in 90 s"]
BUILD_TARGETS = ["rel", "asan"]
SECONDS = {"quick": 60, "thorough": 1200}


def seed_corpus(name, n=64, size=400):
    """long pseudo-random inputs: the structure-aware decoders return their minimum once the bytes run out, so short inputs never
    populate the later keywords; deterministic content (a fixed LCG), written once per build directory"""
    d = os.path.join(BUILD, "fuzz", name)
    if not os.path.isdir(d) or len(os.listdir(d)) < n:
        os.makedirs(d, exist_ok=True)
        x = 12345
        for k in range(n):
            buf = bytearray()
            for _ in range(size):
                x = (x * 1103515245 + 12345) & 0x7fffffff
                buf.append((x >> 16) & 0xff)
            open(os.path.join(d, "seed%03d" % k), "wb").write(bytes(buf))
    return d


def runner_params(tier, seed):
    return fuzzrun.campaign(ID, "params", "fuzz_params", tier, seed, SECONDS[tier], max_len=512, corpus_dirs=[seed_corpus("seed_params")],
                            extra_args=["-len_control=0"])


def bad_configs(vs):
    v0 = vs[0]["name"]
    names = " ".join(v["name"] for v in vs)
    g = vs[0]["grid"]
    out = [
        ("wrong_length", "harmonic {\n  name bad\n  colvars %s\n  centers 1.0 2.0 3.0\n  forceConstant 1.0\n}" % v0),
        ("unknown_variable", "harmonic {\n  name bad\n  colvars %s nosuch\n  centers 1.0 2.0\n  forceConstant 1.0\n}" % v0),
        ("zero_freq", "metadynamics {\n  name bad\n  colvars %s\n  hillWeight 0.1\n  hillWidth 1.0\n  newHillFrequency 0\n}" % v0),
        ("negative_width", "metadynamics {\n  name bad\n  colvars %s\n  hillWeight 0.1\n  hillWidth -1.0\n  newHillFrequency 1\n}" % v0),
        ("missing_required", "harmonic {\n  name bad\n  colvars %s\n  forceConstant 1.0\n}" % v0),
        ("unknown_keyword", "harmonic {\n  name bad\n  colvars %s\n  centers 1.0\n  forceConstant 1.0\n  noSuchKeyword 3\n}" % v0),
        ("duplicate_name", zoo.render_var(vs[0])),
        ("missing_atom", "colvar {\n  name bad\n  distance {\n    group1 { atomNumbers %d }\n    group2 { atomNumbers 999 }\n  }\n}" % vs[0]["atom"]),
        ("empty_group", "colvar {\n  name bad\n  distance {\n    group1 { atomNumbers %d }\n    group2 {\n    }\n  }\n}" % vs[0]["atom"]),
        ("unmatched_brace", "harmonic {\n  name bad\n  colvars %s\n  centers 1.0\n  forceConstant 1.0\n" % v0),
        ("text_for_number", "harmonic {\n  name bad\n  colvars %s\n  centers abc\n  forceConstant 1.0\n}" % v0),
        ("walls_order", "harmonicWalls {\n  name bad\n  colvars %s\n  lowerWalls 5.0\n  upperWalls 1.0\n  forceConstant 1.0\n}" % v0),
        ("abf_negative", "abf {\n  name bad\n  colvars %s\n  fullSamples -5\n  historyFreq 3\n  outputFreq 2\n}" % v0),
        ("hist_restraint", "histogramRestraint {\n  name bad\n  colvars %s\n  lowerBoundary 4\n  upperBoundary 0\n  width 1.0\n  refHistogram 0.5 0.5\n}" % v0),
        ("grid_zero_width", "histogram {\n  name bad\n  colvars %s\n  grid {\n    widths 0\n    lowerBoundaries %s\n    upperBoundaries %s\n  }\n}" % (
            v0, fmt(g["lower"]), fmt(g["upper"]))),
        ("tsf_zero", "harmonic {\n  name bad\n  colvars %s\n  centers 1.0\n  forceConstant 0.5\n  timeStepFactor 0\n}" % vs[-1]["name"]),
        ("tsf2_negk", "harmonic {\n  name bad\n  colvars %s\n  centers 1.0\n  forceConstant -1.0\n  timeStepFactor 2\n}" % vs[-1]["name"]),
        ("tsf3_badcenters", "harmonic {\n  name bad\n  colvars %s\n  centers\n  forceConstant 1.0\n  timeStepFactor 3\n}" % v0),
        ("opes_missing", "opes_metad {\n  name bad\n  colvars %s\n  barrier -5\n}" % v0),
        ("alb_bad", "alb {\n  name bad\n  colvars %s\n  centers 1.0 2.0\n  updateFrequency 0\n}" % v0),
        ("colvar_bad_option", "colvar {\n  name bad\n  width -1\n  lowerBoundary 3\n  upperBoundary 1\n  runAve on\n  runAveStride 0\n  distanceZ {\n"
         "    main { atomNumbers %d }\n    ref { dummyAtom (0, 0, 0) }\n  }\n}" % vs[0]["atom"]),
        ("two_vars_wrong", "harmonic {\n  name bad\n  colvars %s\n  centers 1.0\n  forceConstant 1.0\n}" % (names + " " + v0)),
    ]
    return out


@st.composite
def spec_recover(draw, tier):
    vs = draw(zoo.variables(2))
    nb = draw(st.sampled_from([1, 2]))
    kinds = ["harmonic", "harmonic_moving", "walls", "linear", "abf", "meta", "meta_nogrid", "abmd", "histogram"]
    bs = [draw(zoo.bias(vs, i, kinds=kinds)) for i in range(nb)]
    T = draw(st.integers(4, 14))
    traj = draw(zoo.trajectory(vs, T + 1))
    nbad = len(bad_configs(vs))
    return {"z": {"vars": vs, "biases": bs}, "T": T, "K": draw(st.integers(0, T - 2)), "traj": traj,
            "fsys": [[rnd(draw(fl(-4, 4)), 2) for _ in range(len(vs))] for _ in range(T + 1)],
            "bad": [draw(st.integers(0, nbad - 1)) for _ in range(draw(st.integers(1, 2)))], "via_script": draw(st.booleans()),
            "later": draw(st.booleans())}


def strip(rec):
    # 'depth' is the indentation level of log messages (left raised by some error paths): not behaviour of an object;
    # engine atom slots whose reference count is zero are unused by design (the proxy's arrays never shrink)
    d = {k: v for k, v in rec.items() if k not in ("errs", "depth")}
    if "ids" in d and "ref" in d:
        keep = [i for i, r in enumerate(d["ref"]) if r > 0]
        d["ids"] = [d["ids"][i] for i in keep]
        d["F"] = [d["F"][i] for i in keep]
        d["ref"] = [d["ref"][i] for i in keep]
    return d


def check_recover(sp, ctx):
    z = sp["z"]
    vs = z["vars"]
    nat = len(vs) + 1
    T, K = sp["T"], sp["K"]
    bad = bad_configs(vs)
    head = cvz.header(nat, 1, temperature=300.0) + ["gauss 0.3"]
    cfg = "config <<END\n%s\nEND" % zoo.render(z)
    later = "config <<END\nharmonic {\n  name later\n  colvars %s\n  centers %s\n  forceConstant 0.7\n}\nEND" % (
        vs[0]["name"], fmt(vs[0]["grid"]["lower"] + vs[0]["grid"]["width"]))

    def steps(t0, t1):
        L = []
        for t in range(t0, t1 + 1):
            L += [cvz.pos_line_z(sp["traj"][t], nat), cvz.fsys_line_z(sp["fsys"][t], nat), "step"]
        return L
    probe = ["atoms", "script cv list", "script cv list biases"]
    mid = K + 1 + (T - K) // 2
    LA = head + [cfg] + steps(0, K) + probe + steps(K + 1, mid) + ([later] if sp["later"] else []) + steps(mid + 1, T) + probe + ["savestr"]
    LB = head + [cfg] + steps(0, K)
    labels = []
    for bi in sp["bad"]:
        lab, text = bad[bi]
        labels.append(lab)
        if sp["via_script"]:
            LB += ["clear_error", "script cv config " + pct(text + "\n"), "clear_error"]
        else:
            LB += ["config <<END\n%s\nEND" % text, "clear_error"]
    LB += probe + steps(K + 1, mid) + ([later] if sp["later"] else []) + steps(mid + 1, T) + probe + ["savestr"]
    ca, cb = "\n".join(LA) + "\n", "\n".join(LB) + "\n"
    ra, rb = run_case(ca), run_case(cb)
    tag = "[%s after step %d%s]" % ("+".join(labels), K, " via script" if sp["via_script"] else "")
    if ra.crashed or ra.of("config")[0]["rc"] != 0:
        return Outcome(False, msg="control run failed: %s" % ra.stderr[-300:], sig="gen_invalid", case_text=ca)
    if rb.crashed:
        return Outcome(False, msg="the host dies on an invalid configuration %s: rc=%s %s" % (tag, rb.returncode, rb.stderr[-800:]),
                       sig="recover_crash:" + labels[0], case_text=cb)
    # were the bad configurations rejected?
    if sp["via_script"]:
        rej = [s for s in rb.of("script") if "config" not in s.get("result", "x")][:0]
        bad_recs = rb.of("script")[:len(sp["bad"])]
    else:
        bad_recs = rb.of("config")[1:1 + len(sp["bad"])]
    accepted = [lab for lab, r in zip(labels, bad_recs) if r["rc"] == 0 and r["errbits"] == 0]
    if accepted:
        # working is as good as failing with an error for this property (strictness is C09's subject): nothing was rejected, so there is
        # nothing to recover from
        return Outcome(True, nontrivial=False, cls=("accepted", "+".join(accepted)), strata=["accepted:" + a for a in accepted], case_text=cb)
    sa, sb = ra.of("step"), rb.of("step")
    if len(sa) != len(sb):
        return Outcome(False, msg="step counts differ %d %d %s" % (len(sa), len(sb), tag), sig="harness", case_text=cb)
    for x, y in zip(sa, sb):
        if strip(x) != strip(y):
            diff = [k for k in strip(x) if strip(x).get(k) != strip(y).get(k)]
            return Outcome(False, msg="after the rejected configuration %s step %d differs from the control run in %s: control %s, after rejection %s" % (
                tag, x["it"], diff, {k: x[k] for k in diff}, {k: y.get(k) for k in diff}), sig="recover_trace:" + labels[0], case_text=cb)
    # object lists and atom requests
    pa = [r for r in ra.recs if r["t"] in ("atoms", "script")]
    pb = [r for r in rb.recs if r["t"] in ("atoms",)] + [s for s in rb.of("script")[(len(sp["bad"]) if sp["via_script"] else 0):]]
    la = [(r["t"], r.get("nactive"), r.get("result")) for r in pa]
    lb = sorted([(r["t"], r.get("nactive"), r.get("result")) for r in pb], key=lambda e: 0)
    # same order of commands in both runs: atoms, list, list biases (twice)
    seq_a = [(r.get("nactive"), r.get("result")) for r in ra.recs if r["t"] in ("atoms", "script")]
    seq_b = [(r.get("nactive"), r.get("result")) for r in rb.recs if r["t"] in ("atoms", "script")]
    if sp["via_script"]:
        # drop the records of the rejected 'cv config' commands
        drop = len(sp["bad"])
        k = 0
        out = []
        for r in rb.recs:
            if r["t"] == "script" and k < drop:
                k += 1
                continue
            if r["t"] in ("atoms", "script"):
                out.append((r.get("nactive"), r.get("result")))
        seq_b = out
    if seq_a != seq_b:
        return Outcome(False, msg="objects or atom requests differ from the control run after the rejection %s: control %s, after rejection %s" % (
            tag, seq_a, seq_b), sig="recover_objects:" + labels[0], case_text=cb)
    if sp["later"]:
        okl = rb.of("config")[-1]
        if okl["rc"] != 0 or okl["errbits"]:
            return Outcome(False, msg="a valid configuration is rejected after the invalid one %s: %s" % (tag, okl["errs"]),
                           sig="recover_later:" + labels[0], case_text=cb)
    if ra.of("savestr")[0]["state"] != rb.of("savestr")[0]["state"]:
        return Outcome(False, msg="final state differs from the control run %s" % tag, sig="recover_state:" + labels[0], case_text=cb)
    forced = any(any(abs(c) > 0 for f in s["F"] for c in f) for s in sb[K + 1:])
    kinds = "+".join(sorted(b["kind"] for b in z["biases"]))
    return Outcome(True, nontrivial=forced, cls=("+".join(labels), kinds, "script" if sp["via_script"] else "config"),
                   strata=["recover"] + ["bad:" + l for l in labels] + (["via_script"] if sp["via_script"] else ["via_config"]), case_text=cb)


def view(spec):
    return {k: v for k, v in spec.items() if k not in ("traj", "fsys")}


REQUIRED_STRATA = {"all": ["recover:recover", "recover:via_script", "recover:via_config"]}

PARTS = {
    "params": {"runner": runner_params, "replay": fuzzrun.replay_fuzz},
    "recover": {"strategy": spec_recover, "check": check_recover, "examples": {"quick": 3200, "thorough": 30000}, "sample": view},
}
