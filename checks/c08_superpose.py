"""C08: bias contributions superpose; multiple-time-step scaling conserves impulse."""
import math
from hypothesis import strategies as st
from lib import cvz
from lib.gen import fl, rnd, fmt
from lib.core import Outcome, run_case, fnum

ID = "C08"
LEVEL = "exploration"
RULE = ("Hypothesis generates 2-4 biases (harmonic, harmonicWalls, linear, abmd, metadynamics, abf with same-step total forces, "
        "histogram, abf with applyBias off) on 3 variables that share atoms (two controlled z variables and their distance), "
        "per-bias timeStepFactor 1-4 on the stateless restraints, 8-20 steps from a generated step offset. Oracle: "
        "differential - per-atom forces and engine energy of the combined configuration equal the sums over the same "
        "biases run separately on the same trajectory (rel 1e-11); non-biasing objects contribute exactly 0; a bias with "
        "factor n contributes 0 on steps that are not multiples of n and n times the factor-1 force on multiples. "
        "Non-trivial: >=2 biases with non-zero force on a shared atom; >=1 bias with n>1 in part mts.")
ASSUMPTIONS = ["history-dependent biases depend only on the (harness-driven) trajectory and same-step total forces, so that separate runs are comparable"]

NAT = 4


def variables_cfg():
    z0 = cvz.zvar("z0", 1, -4, 6, 0.5)
    z1 = cvz.zvar("z1", 2, -4, 6, 0.5)
    d = ("colvar {\n  name d\n  width 0.5\n  lowerBoundary 0\n  upperBoundary 12\n  distance {\n    group1 { atomNumbers 1 }\n"
         "    group2 { atomNumbers 2 3 }\n  }\n}")
    return z0 + "\n" + z1 + "\n" + d


@st.composite
def bias_spec(draw, idx, allow_tsf):
    kind = draw(st.sampled_from(["harmonic", "harmonic", "walls", "linear", "abmd", "meta", "abf", "histogram", "abf_noapply"]))
    var = draw(st.sampled_from(["z0", "z1", "d"]))
    b = {"kind": kind, "name": "b%d" % idx, "var": var, "k": rnd(draw(fl(0.3, 8)), 2), "c": rnd(draw(fl(-1, 4)), 2), "tsf": 1}
    if kind == "harmonic" and draw(st.booleans()):
        b["var2"] = draw(st.sampled_from([v for v in ["z0", "z1", "d"] if v != var]))
        b["c2"] = rnd(draw(fl(0, 4)), 2)
    if allow_tsf and kind in ("harmonic", "walls", "linear"):
        b["tsf"] = draw(st.sampled_from([1, 2, 3, 4]))
    return b


def render(b):
    k = b["kind"]
    tsf = "  timeStepFactor %d\n" % b["tsf"] if b["tsf"] != 1 else ""
    if k == "harmonic":
        vs = b["var"] + (" " + b["var2"] if "var2" in b else "")
        cs = fmt(b["c"]) + (" " + fmt(b["c2"]) if "var2" in b else "")
        return "harmonic {\n  name %s\n  colvars %s\n  centers %s\n  forceConstant %s\n%s}" % (b["name"], vs, cs, fmt(b["k"]), tsf)
    if k == "walls":
        return "harmonicWalls {\n  name %s\n  colvars %s\n  lowerWalls %s\n  upperWalls %s\n  forceConstant %s\n%s}" % (
            b["name"], b["var"], fmt(b["c"]), fmt(b["c"] + 1.0), fmt(b["k"]), tsf)
    if k == "linear":
        return "linear {\n  name %s\n  colvars %s\n  centers %s\n  forceConstant %s\n%s}" % (b["name"], b["var"], fmt(b["c"]), fmt(b["k"]), tsf)
    if k == "abmd":
        return "abmd {\n  name %s\n  colvars %s\n  forceConstant %s\n  stoppingValue 50\n}" % (b["name"], b["var"], fmt(b["k"]))
    if k == "meta":
        return "metadynamics {\n  name %s\n  colvars %s\n  hillWeight %s\n  hillWidth 2.0\n  newHillFrequency 2\n  writeFreeEnergyFile off\n}" % (
            b["name"], b["var"], fmt(0.1 * b["k"]))
    if k in ("abf", "abf_noapply"):
        v = b["var"] if b["var"] != "d" else "z0"
        return "abf {\n  name %s\n  colvars %s\n  fullSamples 2\n  integrate off\n%s}" % (
            b["name"], v, "  applyBias off\n" if k == "abf_noapply" else "")
    return "histogram {\n  name %s\n  colvars %s\n}" % (b["name"], b["var"])


@st.composite
def spec_sup(draw, tier, mts=False):
    nb = draw(st.integers(2, 4))
    bs = [draw(bias_spec(i, mts)) for i in range(nb)]
    if mts and all(b["tsf"] == 1 for b in bs):
        bs[0] = {"kind": "harmonic", "name": "b0", "var": "z0", "k": 2.0, "c": 1.0, "tsf": draw(st.sampled_from([2, 3, 4]))}
    T = draw(st.integers(8, 20))
    pos = []
    cur = [[0.3 * a, 0.1 * a, rnd(draw(fl(-1, 4)), 3)] for a in range(NAT)]
    for t in range(T):
        cur = [[c[0] + rnd(draw(fl(-0.2, 0.2)), 3), c[1], c[2] + rnd(draw(fl(-0.6, 0.6)), 3)] for c in cur]
        pos.append([list(c) for c in cur])
    fs = [[rnd(draw(fl(-3, 3)), 2) for _ in range(NAT)] for _ in range(T)]
    return {"biases": bs, "pos": pos, "fsys": fs, "start": draw(st.sampled_from([0, 0, 1, 5, 12]))}


def run_cfg(spec, blist):
    L = cvz.header(NAT, 1) + ["setstep %d" % spec["start"], "config <<END\n%s\n%s\nEND" % (variables_cfg(), "\n".join(render(b) for b in blist))]
    for p, f in zip(spec["pos"], spec["fsys"]):
        L.append("pos " + " ".join(fnum(c) for a in p for c in a))
        L.append(cvz.fsys_line_z(f, NAT))
        L.append("step")
    return "\n".join(L) + "\n"


def atom_forces(s):
    F = [[0.0] * 3 for _ in range(NAT)]
    for slot, aid in enumerate(s["ids"]):
        for d in range(3):
            F[aid][d] += s["F"][slot][d]
    return F


def check_sup(spec, ctx, mts=False):
    bs = spec["biases"]
    case = run_cfg(spec, bs)
    r = run_case(case)
    if r.crashed or r.of("config")[0]["rc"] != 0:
        return Outcome(False, msg="crash/rejected: %s %s" % (r.of("config")[:1], r.stderr[-300:]), sig="gen_invalid", case_text=case)
    singles = []
    for b in bs:
        b1 = dict(b)
        b1["tsf"] = 1
        rs = run_case(run_cfg(spec, [b1]))
        if rs.crashed or rs.of("config")[0]["rc"] != 0:
            return Outcome(False, msg="single-bias run failed", sig="gen_invalid", case_text=case)
        singles.append(rs.of("step"))
    shared = 0
    for k, s in enumerate(r.of("step")):
        if s["errbits"]:
            return Outcome(False, msg="step error %s" % s["errs"], sig="step_error", case_text=case)
        it = s["it"]
        F = atom_forces(s)
        Fexp = [[0.0] * 3 for _ in range(NAT)]
        Eexp = 0.0
        contrib = [0] * NAT
        for b, ss in zip(bs, singles):
            n = b["tsf"]
            if it % n != 0:
                continue
            Fs = atom_forces(ss[k])
            nonbias = b["kind"] in ("histogram", "abf_noapply")
            for a in range(NAT):
                if any(abs(c) > 1e-12 for c in Fs[a]):
                    if nonbias:
                        return Outcome(False, msg="non-biasing object %s applies a force" % b["kind"], sig="nonbiasing_force", case_text=case)
                    contrib[a] += 1
                for d in range(3):
                    Fexp[a][d] += n * Fs[a][d]
            Eexp += ss[k]["E"]
        if max(contrib) >= 2:
            shared += 1
        for a in range(NAT):
            for d in range(3):
                if abs(F[a][d] - Fexp[a][d]) > 1e-11 * max(1.0, abs(Fexp[a][d])):
                    return Outcome(False, msg="step %d atom %d coord %d: combined force %r, sum of the biases run separately%s %r [%s]" %
                                   (it, a, d, F[a][d], " (scaled by their time-step factors)" if mts else "", Fexp[a][d],
                                    ",".join("%s/%d" % (b["kind"], b["tsf"]) for b in bs)), sig="superposition_force", case_text=case)
        if abs(s["E"] - Eexp) > 1e-11 * max(1.0, abs(Eexp)):
            return Outcome(False, msg="step %d: combined energy %r, sum of the separate energies %r [%s]" %
                           (it, s["E"], Eexp, ",".join("%s/%d" % (b["kind"], b["tsf"]) for b in bs)), sig="superposition_energy", case_text=case)
    kinds = tuple(sorted(b["kind"] for b in bs))
    tsfs = tuple(sorted(b["tsf"] for b in bs))
    return Outcome(True, nontrivial=shared >= 1 and (not mts or max(tsfs) > 1), cls=kinds + (("tsf",) + tuple(map(str, tsfs)) if mts else ()),
                   strata=["kind:" + k for k in set(kinds)] + (["tsf>1"] if max(tsfs) > 1 else []), case_text=case)


def view(spec):
    return {"biases": spec["biases"], "start": spec["start"], "nsteps": len(spec["pos"]), "pos0": spec["pos"][0]}


PARTS = {
    "sum": {"strategy": spec_sup, "check": check_sup, "examples": {"quick": 4500, "thorough": 15000}, "sample": view},
    "mts": {"strategy": lambda tier: spec_sup(tier, mts=True), "check": lambda s, c: check_sup(s, c, mts=True),
            "examples": {"quick": 3500, "thorough": 12000}, "sample": view},
}


# --------------------------------------------------------------------------------------------
# multiple time steps on an extended-Lagrangian variable: a bias that bypasses the extended coordinate (harmonicWalls by default) acts
# on the atoms directly; with time-step factor n its force is an impulse n times the force, at the steps that are multiples of n

@st.composite
def spec_mts_ext(draw, tier):
    n = draw(st.sampled_from([1, 2, 2, 3, 4]))
    T = draw(st.integers(4, 14))
    lo = rnd(draw(fl(0.5, 2.0)), 2)
    return {"n": n, "T": T, "lo": lo, "up": rnd(lo + draw(fl(0.3, 1.5)), 2), "k": rnd(draw(fl(0.5, 8.0)), 2), "w": draw(st.sampled_from([1.0, 0.5])),
            "x": [rnd(draw(fl(-0.5, 4.0)), 3) for _ in range(T + 1)], "start": draw(st.sampled_from([0, 0, 6])),
            "bypass": draw(st.sampled_from([True, True, False]))}


def check_mts_ext(spec, ctx):
    n = spec["n"]
    ext = {"extendedLagrangian": "on", "extendedFluctuation": "0.3", "extendedTimeConstant": "60", "extendedLangevinDamping": "0",
           "extendedTemp": "300"}
    if n > 1:
        ext["timeStepFactor"] = str(n)
    cv = cvz.zvar("z0", 1, -5, 10, spec["w"], extra=ext)
    walls = "harmonicWalls {\n  name w\n  colvars z0\n  lowerWalls %s\n  upperWalls %s\n  forceConstant %s\n%s%s}\n" % (
        fnum(spec["lo"]) if False else repr(spec["lo"]), repr(spec["up"]), repr(spec["k"]), "  timeStepFactor %d\n" % n if n > 1 else "",
        "" if spec["bypass"] else "  bypassExtendedLagrangian off\n")

    def run(with_walls):
        # a second, force-free user of the variable keeps it on the same schedule in both runs
        hist = "histogram {\n  name h\n  colvars z0\n%s}\n" % ("  timeStepFactor %d\n" % n if n > 1 else "")
        L = cvz.header(2, 0, temperature=300.0) + ["setstep %d" % spec["start"], "config <<END\n%s\n%s%s\nEND" % (cv, hist, walls if with_walls else "")]
        for x in spec["x"]:
            L += [cvz.pos_line_z([x], 2), "step"]
        case = "\n".join(L) + "\n"
        return case, run_case(case)
    ca, ra = run(True)
    cb, rb = run(False)
    if ra.crashed or rb.crashed:
        return Outcome(False, msg="crash %s" % (ra.stderr[-300:] or rb.stderr[-300:]), sig="crash", case_text=ca)
    if ra.of("config")[0]["rc"] != 0 or rb.of("config")[0]["rc"] != 0:
        return Outcome(False, msg="configuration rejected: %s" % (ra.of("config")[0]["errs"] or rb.of("config")[0]["errs"]), sig="gen_invalid", case_text=ca)
    active = 0
    for sa, sb, x in zip(ra.of("step"), rb.of("step"), spec["x"]):
        if sa["errbits"] or sb["errbits"]:
            return Outcome(False, msg="step error %s %s" % (sa["errs"], sb["errs"]), sig="step_error", case_text=ca)
        it = sa["it"]
        Fa, Fb = atom_forces2(sa), atom_forces2(sb)
        d = (x - spec["lo"]) if x < spec["lo"] else ((x - spec["up"]) if x > spec["up"] else 0.0)
        fw = -spec["k"] / (spec["w"] ** 2) * d
        if not spec["bypass"]:
            continue       # walls acting on the extended coordinate change its dynamics: only errors and crashes are looked at
        exp = n * fw if it % n == 0 else 0.0
        got = Fa[0][2] - Fb[0][2]
        if exp != 0.0:
            active += 1
        if abs(got - exp) > 1e-10 * max(1.0, abs(exp)):
            return Outcome(False, msg="step %d (time-step factor %d): the walls change the force on the atom by %r; the wall force at the actual value %r is "
                           "%r, so %r is expected" % (it, n, got, x, fw, exp), sig="mts_ext_bypass", case_text=ca)
    return Outcome(True, nontrivial=active >= 1 and n > 1, cls=("mts_ext", "n%d" % n, "bypass" if spec["bypass"] else "nobypass"),
                   strata=["mts_ext"] + (["mts_ext_n>1"] if n > 1 and active else []), case_text=ca)


def atom_forces2(s):
    F = [[0.0] * 3 for _ in range(2)]
    for slot, aid in enumerate(s["ids"]):
        if aid < 2:
            for d in range(3):
                F[aid][d] += s["F"][slot][d]
    return F


PARTS["mts_ext"] = {"strategy": spec_mts_ext, "check": check_mts_ext, "examples": {"quick": 2000, "thorough": 20000}, "sample": lambda s: s}
REQUIRED_STRATA = {"all": ["mts_ext:mts_ext_n>1"]}
