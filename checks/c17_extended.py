"""C17: extended-Lagrangian coordinates follow the documented integrator (reference integrator in Python)."""
import math
from hypothesis import strategies as st
from lib import cvz
from lib.gen import fl, rnd, fmt
from lib.core import Outcome, run_case, fnum, pct

ID = "C17"
LEVEL = "exploration"
RULE = ("Hypothesis generates one extended variable (scalar or periodic; fluctuation, time constant, temperature, time step, "
        "friction 0 or >0 with a Gaussian tape, reflecting boundaries on either side), generated trajectories of the actual "
        "variable, a harmonic or linear bias on the extended coordinate and/or harmonic walls with and without "
        "bypassExtendedLagrangian, run boundaries with a repeated step. Oracle: a Python reference integrator written from the "
        "manual (BAOA with split velocity half-steps) reproduces extended value, velocity, kinetic+potential energy and the "
        "force on the atoms step by step (rel 1e-10, same tape); independent invariants: the coordinate never lies outside a "
        "reflecting boundary, atoms feel only the spring plus bypassing biases, a repeated step does not advance the coordinate "
        "twice. Non-trivial: >=20 steps, >=1 reflection or run boundary, spring force != 0.")
ASSUMPTIONS = ["the actual variable is a controlled coordinate (z of one atom); its trajectory is generated, not integrated"]
KB = 0.001987191


@st.composite
def spec_ext(draw, tier):
    periodic = draw(st.integers(0, 4)) == 0
    lower, upper = -3.0, 5.0
    T = draw(st.integers(20, 60))
    x = [rnd(draw(fl(-1, 3)), 3)]
    for _ in range(T - 1):
        x.append(rnd(x[-1] + draw(fl(-0.15, 0.15)), 4))
    bias = draw(st.sampled_from(["none", "harmonic", "harmonic", "linear", "walls", "walls_bypass_off"]))
    if periodic and bias == "linear":
        bias = "harmonic"
    refl = draw(st.sampled_from(["none", "none", "lower", "upper", "both"])) if not periodic else "none"
    tsf = draw(st.sampled_from([1, 1, 1, 2, 3]))
    if tsf > 1:
        bias = "none"       # a variable integrated with a longer time step; biases with other factors are C08's subject
    return {"tsf": tsf,
            "periodic": periodic, "lower": lower, "upper": upper, "x": x, "fluct": rnd(draw(fl(0.05, 0.5)), 3),
            "tc": draw(st.sampled_from([10.0, 20.0, 50.0, 200.0])), "temp": draw(st.sampled_from([300.0, 100.0, 1000.0])),
            "dt": draw(st.sampled_from([1.0, 2.0, 0.5])), "damp": draw(st.sampled_from([0.0, 0.0, 1.0, 10.0])),
            "gauss": [rnd(draw(fl(-2.5, 2.5)), 3) for _ in range(16)], "bias": bias, "kb": rnd(draw(fl(0.5, 20)), 2),
            "c": rnd(draw(fl(-1, 3)), 2), "refl": refl, "rl": rnd(draw(fl(-0.5, 0.8)), 2), "ru": rnd(draw(fl(1.2, 2.5)), 2),
            "newrun": draw(st.integers(2, T - 2)) if (draw(st.integers(0, 2)) == 0 and tsf == 1) else None, "width": draw(st.sampled_from([1.0, 0.5])),
            # the run stopped after step 'restart', continued by a fresh instance from the saved state, whose first step (the same step
            # again) is evaluated once or twice ("run 0" then "run N")
            "restart": draw(st.integers(2, T - 2)) if draw(st.integers(0, 3)) == 0 else None, "twice": draw(st.booleans())}


def build(spec):
    lo, up = spec["lower"], spec["upper"]
    if spec["refl"] in ("lower", "both"):
        lo = spec["rl"]
    if spec["refl"] in ("upper", "both"):
        up = spec["ru"]
    extra = {"extendedLagrangian": "on", "extendedFluctuation": fmt(spec["fluct"]), "extendedTimeConstant": fmt(spec["tc"]),
             "extendedTemp": fmt(spec["temp"]), "extendedLangevinDamping": fmt(spec["damp"]), "outputEnergy": "on", "outputVelocity": "on"}
    if spec.get("tsf", 1) > 1:
        extra["timeStepFactor"] = str(spec["tsf"])
    if spec["refl"] in ("lower", "both"):
        extra["reflectingLowerBoundary"] = "on"
    if spec["refl"] in ("upper", "both"):
        extra["reflectingUpperBoundary"] = "on"
    cfg = cvz.zvar("z0", 1, lo, up, spec["width"], periodic=spec["periodic"], extra=extra)
    b = spec["bias"]
    if b == "harmonic":
        cfg += "\nharmonic {\n  name b\n  colvars z0\n  centers %s\n  forceConstant %s\n}" % (fmt(spec["c"]), fmt(spec["kb"]))
    elif b == "linear":
        cfg += "\nlinear {\n  name b\n  colvars z0\n  centers %s\n  forceConstant %s\n}" % (fmt(spec["c"]), fmt(spec["kb"]))
    elif b.startswith("walls"):
        cfg += "\nharmonicWalls {\n  name b\n  colvars z0\n  lowerWalls %s\n  upperWalls %s\n  forceConstant %s\n%s}" % (
            fmt(spec["c"]), fmt(spec["c"] + 0.6), fmt(spec["kb"]), "  bypassExtendedLagrangian off\n" if b.endswith("off") else "")
    L = cvz.header(2, 0, temperature=300.0) + ["timestep %s" % fnum(spec["dt"]), "gauss " + " ".join(fnum(g) for g in spec["gauss"])]
    L.append("config <<END\n%s\nEND" % cfg)
    rs = restart_step(spec)
    if rs is not None:
        L1 = list(L)
        for t, x in enumerate(spec["x"][:rs + 1]):
            L1 += [cvz.pos_line_z([x], 2), "step"]
        L1.append("savestr")
        L2 = list(L[:-1]) + ["setstep %d" % rs, L[-1], "loadstr @STATE@", cvz.pos_line_z([spec["x"][rs]], 2), "step"]
        if spec["twice"]:
            L2 += ["newrun", "step"]
        for x in spec["x"][rs + 1:]:
            L2 += [cvz.pos_line_z([x], 2), "step"]
        return ("\n".join(L1) + "\n", "\n".join(L2) + "\n"), (lo, up)
    for t, x in enumerate(spec["x"]):
        if spec["newrun"] == t:
            L += ["newrun", "step"]
        L += [cvz.pos_line_z([x], 2), "step"]
    return "\n".join(L) + "\n", (lo, up)


def restart_step(spec):
    """the step after which the run is continued by a fresh instance, or None (the engine's random stream is not part of the state:
    only without friction; one schedule change per case)"""
    if spec.get("restart") is None or spec["damp"] > 0 or spec.get("tsf", 1) > 1 or spec["newrun"] is not None:
        return None
    return min(spec["restart"], len(spec["x"]) - 2)


def model(spec, bounds, observed=None):
    """reference integrator; with 'observed' (the code's extended value and velocity at every evaluation) each step is predicted
    from the code's own previous state, so that rounding differences are not amplified by stiff or unstable dynamics"""
    lo, up = bounds
    P = (up - lo) if spec["periodic"] else None
    w = spec["width"]
    kT = KB * spec["temp"]
    k = kT / (spec["fluct"] ** 2)
    m = kT * spec["tc"] ** 2 / (4 * math.pi ** 2 * spec["fluct"] ** 2)
    nts = spec.get("tsf", 1)
    dt = spec["dt"] * nts          # the extended coordinate is integrated with the long time step
    gamma = spec["damp"] * 1e-3
    sigma = math.sqrt((1 - math.exp(-2 * gamma * dt)) * m * kT) if gamma > 0 else 0.0
    tape = spec["gauss"]
    gi = 0
    centre = 0.5 * (lo + up)

    def wrap(v):
        if P:
            return v - P * math.floor((v - centre) / P + 0.5)
        return v

    def sdiff(a, b):
        d = a - b
        if P:
            d -= P * math.floor(d / P + 0.5)
        return d
    out = []
    xe = ve = None
    prev = None
    info = {"reflections": 0, "spring": 0}
    ev = []
    rs = restart_step(spec)
    for t, x in enumerate(spec["x"]):
        if spec["newrun"] == t:
            ev.append((t - 1, True, spec["x"][t - 1]))
        ev.append((t, False, x))
        if rs == t:
            # the resumed instance evaluates the same step again from the saved state: nothing advances
            ev.append((t, True, x))
            if spec["twice"]:
                ev.append((t, True, x))
    for it, rep, xraw in ev:
        if nts > 1 and it % nts != 0:
            out.append(None)       # the variable sleeps at this step
            continue
        x = wrap(xraw)
        if xe is None:
            xe, ve = x, 0.0
            if spec["refl"] in ("lower", "both") and xe < lo:
                xe = lo
            if spec["refl"] in ("upper", "both") and xe > up:
                xe = up
        if rep and prev is not None:
            xe, ve = prev          # revert the integration of the repeated step
        x_rep, v_rep = xe, ve
        if observed is not None and len(out) < len(observed) and observed[len(out)] is not None:
            ox, ov = observed[len(out)]
            if abs(ox - xe) <= 1e-9 * max(1.0, abs(xe)) and abs(ov - ve) <= 1e-9 * max(1.0, abs(ve)):
                xe, ve = ox, ov          # agreed within tolerance: continue from the code's numbers
        # bias force on the extended coordinate and on the actual coordinate
        fb_ext, fb_act, Eb = 0.0, 0.0, 0.0
        b = spec["bias"]
        if b == "harmonic":
            d = sdiff(xe, spec["c"])
            fb_ext = -spec["kb"] / (w * w) * d
            Eb = 0.5 * spec["kb"] / (w * w) * d * d
        elif b == "linear":
            fb_ext = -spec["kb"] / w
            Eb = spec["kb"] / w * (xe - spec["c"])
        elif b.startswith("walls"):
            val = x if b == "walls" else xe      # default: harmonic walls bypass the extended coordinate
            lw, uw = spec["c"], spec["c"] + 0.6
            if P:
                dl, du = sdiff(val, lw), sdiff(val, uw)
                d = 0.0
                if dl * dl < du * du:
                    d = dl if dl < 0 else 0.0
                else:
                    d = du if du > 0 else 0.0
            else:
                d = (val - lw) if val < lw else ((val - uw) if val > uw else 0.0)
            f = -spec["kb"] / (w * w) * d
            Eb = 0.5 * spec["kb"] / (w * w) * d * d
            if b == "walls":
                fb_act = f
            else:
                fb_ext = f
        fsys = -k * sdiff(xe, x)
        f_atoms = -fsys * nts + fb_act      # applied as an impulse over the inner steps
        if abs(fsys) > 1e-9:
            info["spring"] += 1
        fext = fb_ext + fsys
        prev = (xe, ve)
        v = ve + 0.5 * dt * fext / m
        Ek = 0.5 * m * v * v
        Ep = 0.5 * k * sdiff(xe, x) ** 2
        v += 0.5 * dt * fext / m
        xn = xe + dt * v / 2
        if gamma > 0:
            r = tape[gi % len(tape)]
            gi += 1
            v = math.exp(-gamma * dt) * v + sigma * r / m
        xn += dt * v / 2
        delta = 0.0
        hit = False
        if spec["refl"] in ("lower", "both") and xn - lo < 0:
            delta, hit = xn - lo, True
        elif spec["refl"] in ("upper", "both") and xn - up > 0:
            delta, hit = xn - up, True
        if hit:
            xn -= 2 * delta
            v = -0.5 * (ve + v)
            info["reflections"] += 1
        xe, ve = wrap(xn), v
        out.append({"x": x_rep, "v": v_rep, "Ecv": Ep + Ek, "Eb": Eb, "fz": f_atoms})
    return out, info


def check_ext(spec, ctx):
    case, bounds = build(spec)
    if isinstance(case, tuple):
        c1, c2 = case
        r = run_case(c1)
        if r.crashed or r.of("config")[0]["rc"] != 0:
            return Outcome(False, msg="first segment failed: %s %s" % (r.of("config")[:1], r.stderr[-300:]), sig="gen_invalid", case_text=c1)
        c2 = c2.replace("@STATE@", pct(r.of("savestr")[0]["state"]))
        r2 = run_case(c2)
        case = c1 + "\n# ---- continued by a fresh instance ----\n" + c2
        if r2.crashed:
            return Outcome(False, msg="crash in the continuation %s" % r2.stderr[-400:], sig="crash", case_text=case)
        if r2.of("config")[0]["rc"] != 0 or r2.of("load")[0]["rc"] != 0:
            return Outcome(False, msg="continuation rejected: %s %s" % (r2.of("config")[0]["errs"], r2.of("load")[0]["errs"]), sig="restart_load", case_text=case)
        steps = r.of("step") + r2.of("step")
    else:
        r = run_case(case)
        if r.crashed:
            return Outcome(False, msg="crash %s" % r.stderr[-400:], sig="crash", case_text=case)
        if r.of("config")[0]["rc"] != 0:
            return Outcome(False, msg="configuration rejected: %s" % r.of("config")[0]["errs"], sig="gen_invalid", case_text=case)
        steps = r.of("step")
    obs = [((s["cv"][0]["x"][0], s["cv"][0]["v"][0]) if s["cv"] and "v" in s["cv"][0] else None) for s in steps]
    exp, info = model(spec, bounds, obs)
    if len(steps) != len(exp):
        return Outcome(False, msg="trace has %d evaluations, expected %d" % (len(steps), len(exp)), sig="harness", case_text=case)
    lo, up = bounds
    for k, (s, m) in enumerate(zip(steps, exp)):
        if m is None:
            continue
        if s["errbits"]:
            if any("outside boundaries after reflection" in e for e in s["errs"]):
                return Outcome(True, strata=["double_reflection"])
            return Outcome(False, msg="step error: %s" % s["errs"], sig="step_error", case_text=case)
        cv = s["cv"][0]
        tag = "[%s dt=%s damp=%s refl=%s periodic=%s]" % (spec["bias"], spec["dt"], spec["damp"], spec["refl"], spec["periodic"])
        for name, got, want in (("extended value", cv["x"][0], m["x"]), ("extended velocity", cv["v"][0], m["v"])):
            if abs(got - want) > 1e-9 * max(1.0, abs(want)):
                return Outcome(False, msg="evaluation %d (step %d): %s %r, reference integrator %r %s" % (k, s["it"], name, got, want, tag),
                               sig="integrator_" + name.split()[1], case_text=case)
        if spec["refl"] in ("lower", "both") and cv["x"][0] < lo - 1e-12:
            return Outcome(False, msg="step %d: extended coordinate %r below the reflecting boundary %r" % (s["it"], cv["x"][0], lo), sig="outside",
                           case_text=case)
        if spec["refl"] in ("upper", "both") and cv["x"][0] > up + 1e-12:
            return Outcome(False, msg="step %d: extended coordinate %r above the reflecting boundary %r" % (s["it"], cv["x"][0], up), sig="outside",
                           case_text=case)
        Eb = s["bias"][0]["E"] if s["bias"] else 0.0
        if abs(Eb - m["Eb"]) > 1e-9 * max(1.0, abs(m["Eb"])):
            return Outcome(False, msg="evaluation %d: bias energy %r, expected %r (bias must act on the %s coordinate) %s" %
                           (k, Eb, m["Eb"], "actual" if spec["bias"] == "walls" else "extended", tag), sig="bias_target", case_text=case)
        Ecv = s["E"] - Eb
        if abs(Ecv - m["Ecv"]) > 1e-8 * max(1.0, abs(m["Ecv"])):
            return Outcome(False, msg="evaluation %d: kinetic+coupling energy %r, reference %r %s" % (k, Ecv, m["Ecv"], tag), sig="energy", case_text=case)
        fz = 0.0
        for slot, aid in enumerate(s["ids"]):
            if aid == 0:
                fz += s["F"][slot][2]
        # the spring force is a difference of nearly equal numbers times a large constant: rounding of the extended value
        # (compared at 1e-9 above) is amplified by k = k_B T / fluctuation^2
        kspring = KB * spec["temp"] / spec["fluct"] ** 2
        if abs(fz - m["fz"]) > 1e-9 * max(1.0, abs(m["fz"])) + 4e-9 * kspring * max(1.0, abs(m["x"])):
            return Outcome(False, msg="evaluation %d: force on the atom %r; spring (+ bypassing bias) gives %r %s" % (k, fz, m["fz"], tag),
                           sig="atom_force", case_text=case)
    cls = (spec["bias"], "per" if spec["periodic"] else "", "refl:" + spec["refl"], "lang" if spec["damp"] > 0 else "nve",
           "newrun" if spec["newrun"] is not None else "", "restart" if restart_step(spec) is not None else "",
           "restart_twice" if restart_step(spec) is not None and spec["twice"] else "", "tsf" if spec.get("tsf", 1) > 1 else "",
           "tsf_lang" if spec.get("tsf", 1) > 1 and spec["damp"] > 0 else "")
    nontrivial = len(exp) >= 20 and info["spring"] > 0 and (info["reflections"] > 0 or spec["newrun"] is not None)
    return Outcome(True, nontrivial=nontrivial, cls=cls, strata=[c for c in cls if c] + (["reflection"] if info["reflections"] else []), case_text=case)


def view(spec):
    d = {k: v for k, v in spec.items() if k != "x"}
    d["x_head"] = spec["x"][:5]
    return d


PARTS = {"integrator": {"strategy": spec_ext, "check": check_ext, "examples": {"quick": 12000, "thorough": 30000}, "sample": view}}
REQUIRED_STRATA = {"all": ["integrator:tsf", "integrator:tsf_lang", "integrator:reflection", "integrator:lang", "integrator:nve", "integrator:newrun", "integrator:walls", "integrator:per", "integrator:restart", "integrator:restart_twice"]}
