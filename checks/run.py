#!/usr/bin/env python3
"""Entry point: run.py <Cxx> --tier quick|thorough [--replay file]"""
import argparse
import importlib
import os
import subprocess
import sys

VERIF = "/verif"
sys.path.insert(0, os.path.join(VERIF, "checks"))


def main():
    ap = argparse.ArgumentParser()
    ap.add_argument("prop")
    ap.add_argument("--tier", default=os.environ.get("VERIF_TIER", "quick"))
    ap.add_argument("--replay")
    ap.add_argument("--nobuild", action="store_true")
    ap.add_argument("--scale", type=float, default=float(os.environ.get("VERIF_SCALE", "1")))
    a = ap.parse_args()
    mods = {m[:3].upper(): m[:-3] for m in os.listdir(os.path.join(VERIF, "checks")) if m.startswith("c") and m.endswith(".py") and m[1:3].isdigit()}
    modname = mods[a.prop.upper()]
    mod = importlib.import_module(modname)
    if not a.nobuild:
        targets = getattr(mod, "BUILD_TARGETS", ["rel"])
        r = subprocess.run(["make", "-s", "-j16", "-C", VERIF] + targets, stdout=subprocess.PIPE, stderr=subprocess.STDOUT)
        if r.returncode != 0:
            sys.stdout.write(r.stdout.decode("utf-8", "replace")[-4000:])
            print("BUILD-FAILED property=%s" % mod.ID, file=sys.stderr)
            return 2
    from lib import core
    if a.replay:
        return core.replay(mod, a.replay)
    seed = int(os.environ.get("VERIF_SEED", "1") or "1")
    only = os.environ.get("VERIF_ONLY_PARTS")   # development aid: run a subset of the parts (evidence is then partial)
    if only:
        mod.PARTS = {k: v for k, v in mod.PARTS.items() if k in only.split(",")}
        if hasattr(mod, "REQUIRED_STRATA"):
            mod.REQUIRED_STRATA = {}
    if a.scale != 1.0:
        for sub in mod.PARTS.values():
            if "examples" in sub:
                sub["examples"] = {k: max(4, int(v * a.scale)) for k, v in sub["examples"].items()}
    return core.run_property(mod, a.tier, seed)


if __name__ == "__main__":
    sys.exit(main())
