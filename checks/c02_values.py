"""C02: values equal their definition (independent numpy model) and respect its symmetries."""
import copy
import math
import os
import numpy as np
from hypothesis import strategies as st
from lib import gen, refmodel
from lib.core import Outcome, run_case, fnum

ID = "C02"
LEVEL = "exploration"
RULE = ("Hypothesis generates systems and single variables over the component/option table; oracles: (refmodel) independent "
        "numpy implementation of the documented formula (Kabsch/SVD for fitted quantities), rel 1e-9 (1e-7 fitted); "
        "(rigid) invariance/equivariance under a generated proper rotation+translation; (lattice) invariance under "
        "lattice translation of whole atom clusters in an orthorhombic cell; (permdup) invariance under permutation and "
        "duplicate listing of atoms in a group; (qsign) sign ambiguity of the quaternion; (lsq) RMSD is a minimum over "
        "generated rotations. Non-trivial: value differs from 0 by >1e-6 and the transformation is not the identity "
        "(rotation angle > 5 deg / non-zero lattice vector / non-identity permutation); distinct by spec hash.")
ASSUMPTIONS = ["reference model written from the manual's formulas", "singular geometries (degenerate fits, zero dipoles) are classified and skipped"]

INTERNAL = {"distance", "distanceInv", "distancePairs", "angle", "dipoleAngle", "dihedral", "selfCoordNum", "hBond",
            "gyration", "inertia", "dipoleMagnitude", "rmsd"}


def comp_invariance(c):
    """(rotation-invariant, translation-invariant) for a rigid motion of all atoms"""
    t = c["type"]
    groups = [g for _, g in c["groups"]]
    if any("dummy" in g for g in groups):
        return (False, False)
    allrot = groups and all(g.get("rotate") and g.get("center") for g in groups)
    anyfit = any(g.get("rotate") or g.get("center") for g in groups)
    if allrot:
        return (True, True)
    if anyfit:
        # centred-only groups are translation invariant; mixing with lab-frame groups is not
        if all(g.get("center") for g in groups):
            return (False, True)
        return (False, False)
    if t in INTERNAL:
        return (True, True)
    if t in ("coordNum", "groupCoord"):
        return ("cutoff3" not in c["kv"], True)
    if t in ("distanceZ", "distanceXY"):
        return (any(k == "ref2" for k, _ in c["groups"]), True)
    if t in ("distanceVec", "distanceDir", "inertiaZ", "orientation", "orientationAngle", "orientationProj", "tilt",
             "spinAngle", "eulerPhi", "eulerTheta", "eulerPsi"):
        return (t in ("orientationAngle", "orientationProj") and False, True)
    if t == "eigenvector":
        return (False, False)
    return (False, False)


_counter = [0]


def build_cfg(cv, workdir, extra=""):
    igs = []
    txt = gen.render_colvar(cv, igs)
    head = ""
    if igs:
        _counter[0] += 1
        path = os.path.join(workdir, "index_%d_%d.ndx" % (os.getpid(), _counter[0] % 50))
        open(path, "w").write(gen.render_index_file(igs))
        head = "indexFile %s\n" % path
    return head + txt + extra


def close(a, b, rtol, per=None):
    if len(a) != len(b):
        return False
    for x, y in zip(a, b):
        d = x - y
        if per:
            d = d - per * math.floor(d / per + 0.5)
        if not (abs(d) <= rtol * max(1.0, abs(x), abs(y))):
            return False
    return True


def fitted(cv):
    for c in cv["comps"]:
        if c["comp"]["type"] in ("rmsd", "eigenvector", "orientation", "orientationAngle", "orientationProj", "tilt",
                                 "spinAngle", "eulerPhi", "eulerTheta", "eulerPsi"):
            return True
        for _, g in c["comp"]["groups"]:
            if g.get("rotate"):
                return True
    return False


def types_of(cv):
    return ",".join(sorted(c["tkey"] for c in cv["comps"]))


def run_values(sysd, configs_positions, workdir):
    """configs_positions: list of (config text, positions); returns list of value lists or an Outcome on failure"""
    L = gen.case_header(sysd)
    first = True
    for cfg, pos in configs_positions:
        if not first:
            L.append("reset")
        first = False
        L.append(gen.config_block(cfg))
        L.append(gen.pos_line(pos))
        L.append("step")
    case = "\n".join(L) + "\n"
    r = run_case(case)
    if r.crashed:
        return None, Outcome(False, msg="crash rc=%s %s" % (r.returncode, r.stderr[-800:]), sig="crash", case_text=case)
    for c in r.of("config"):
        if c["rc"] != 0:
            return None, Outcome(False, msg="generated configuration rejected: %s" % c["errs"], sig="gen_invalid", case_text=case)
    steps = r.of("step")
    if len(steps) != len(configs_positions) or any(s["errbits"] for s in steps):
        return None, Outcome(False, msg="step error: %s" % [s["errs"] for s in steps], sig="step_error", case_text=case)
    return ([s["cv"][0]["x"] for s in steps], case), None


# ---------------------------------------------------------------------------------- refmodel

@st.composite
def spec_one(draw, tier, cell=None, nonscalar_p=4):
    sysd = draw(gen.system(4, 12, cell=cell))
    if draw(st.integers(0, nonscalar_p)) == 0:
        cv = draw(gen.nonscalar_colvar(sysd, "cv1"))
    else:
        cv = draw(gen.scalar_colvar(sysd, "cv1"))
    if sysd["cell"] and gen.uses_fit([cv]):
        sysd["cell"] = [c * 3.0 for c in sysd["cell"]]
    return {"sys": sysd, "cv": cv}


def check_refmodel(spec, ctx):
    sysd, cv = spec["sys"], spec["cv"]
    S = refmodel.Sys(sysd)
    try:
        ref = refmodel.colvar_value(S, cv)
    except refmodel.Singular:
        return Outcome(True, strata=["singular"])
    except (ZeroDivisionError, ValueError, FloatingPointError):
        return Outcome(True, strata=["singular"])
    if not all(math.isfinite(v) for v in ref):
        return Outcome(True, strata=["singular"])
    res, bad = run_values(sysd, [(build_cfg(cv, ctx["workdir"]), sysd["pos"])], ctx["workdir"])
    if bad:
        return bad
    (vals, case) = res
    got = vals[0]
    tol = 1e-7 if fitted(cv) else 1e-9
    per = cv.get("periodic")
    ok = close(got, ref, tol, per)
    if not ok and cv["vtype"] == gen.QUAT:
        ok = close(got, [-x for x in ref], tol)
    # values close to the periodic seam of a periodic component that is combined non-linearly are discontinuous
    if not ok and not per and any(c["comp"].get("periodic") for c in cv["comps"]):
        return Outcome(True, strata=["seam"])
    cls = (types_of(cv), "cell" if sysd["cell"] else "nocell")
    if not ok:
        return Outcome(False, msg="value %r but the documented definition gives %r (types %s)" % (got, ref, types_of(cv)),
                       sig="value_mismatch", case_text=case, cls=cls)
    nontrivial = any(abs(v) > 1e-6 for v in ref)
    return Outcome(True, nontrivial=nontrivial, cls=cls, strata=["type:" + c["tkey"] for c in cv["comps"]], case_text=case)


# ---------------------------------------------------------------------------------- rigid motion

@st.composite
def spec_rigid(draw, tier):
    s = draw(spec_one(tier, cell=False, nonscalar_p=3))
    q = gen.quat_mul(draw(gen.unit_quat()), gen.GENERIC_QUAT)
    s["q"] = q
    s["t"] = [gen.rnd(draw(gen.fl(-5, 5)), 4) for _ in range(3)]
    return s


def check_rigid(spec, ctx):
    sysd, cv = spec["sys"], spec["cv"]
    inv = [comp_invariance(c["comp"]) for c in cv["comps"]]
    rot_inv = all(i[0] for i in inv)
    tr_inv = all(i[1] for i in inv)
    t0 = cv["comps"][0]["comp"]["type"]
    equivariant = (len(cv["comps"]) == 1 and t0 in ("distanceVec", "distanceDir", "orientation") and tr_inv)
    if not tr_inv:
        return Outcome(True, strata=["not_invariant"])
    R = np.array(gen.quat_to_mat(spec["q"]))
    ang = math.degrees(2 * math.acos(min(1.0, abs(spec["q"][0]))))
    X = np.array(sysd["pos"])
    tvec = np.array(spec["t"])
    use_rot = rot_inv or equivariant
    X2 = (X @ R.T if use_rot else X) + tvec
    cfg = build_cfg(cv, ctx["workdir"])
    res, bad = run_values(sysd, [(cfg, sysd["pos"]), (cfg, X2.tolist())], ctx["workdir"])
    if bad:
        return bad
    (vals, case) = res
    a, b = vals
    tol = 1e-7 if fitted(cv) else 1e-9
    per = cv.get("periodic")
    expect = a
    if equivariant and use_rot:
        if t0 in ("distanceVec", "distanceDir"):
            expect = (R @ np.array(a)).tolist()
            expect = [cv["comps"][0]["coeff"] * 0 + v for v in expect]
        else:
            expect = gen.quat_mul(spec["q"], a)
    ok = close(b, expect, tol, per)
    if not ok and cv["vtype"] == gen.QUAT:
        ok = close(b, [-v for v in expect], tol)
    if not ok and not per and any(c["comp"].get("periodic") for c in cv["comps"]):
        return Outcome(True, strata=["seam"])
    kind = "equivariant" if (equivariant and use_rot) else ("rot+trans" if use_rot else "trans")
    cls = (types_of(cv), kind)
    if not ok:
        return Outcome(False, msg="value changed under a rigid motion (%s): %r -> %r, expected %r (types %s)" %
                       (kind, a, b, expect, types_of(cv)), sig="rigid_" + kind, case_text=case, cls=cls)
    nontrivial = any(abs(v) > 1e-6 for v in a) and (ang > 5.0 if use_rot else np.linalg.norm(tvec) > 1e-3)
    return Outcome(True, nontrivial=nontrivial, cls=cls, strata=["kind:" + kind] + ["type:" + c["tkey"] for c in cv["comps"]],
                   case_text=case)


# ---------------------------------------------------------------------------------- lattice translation

@st.composite
def spec_lattice(draw, tier):
    s = draw(spec_one(tier, cell=True, nonscalar_p=4))
    s["shifts"] = [[draw(st.integers(-2, 2)) for _ in range(3)] for _ in range(s["sys"]["natoms"])]
    return s


def check_lattice(spec, ctx):
    sysd, cv = spec["sys"], spec["cv"]
    # functions of absolute lab-frame positions are not invariant under lattice translations
    if any(c["comp"]["type"] in ("cartesian", "polarTheta", "polarPhi") for c in cv["comps"]):
        return Outcome(True, strata=["not_invariant"])
    X2 = gen.lattice_shifted_positions(sysd, [cv], spec["shifts"])
    cfg = build_cfg(cv, ctx["workdir"])
    res, bad = run_values(sysd, [(cfg, sysd["pos"]), (cfg, X2)], ctx["workdir"])
    if bad:
        return bad
    (vals, case) = res
    a, b = vals
    tol = 1e-6 if fitted(cv) else 1e-9
    per = cv.get("periodic")
    ok = close(b, a, tol, per) or (cv["vtype"] == gen.QUAT and close(b, [-v for v in a], tol))
    if not ok and not per and any(c["comp"].get("periodic") for c in cv["comps"]):
        return Outcome(True, strata=["seam"])
    cls = (types_of(cv),)
    if not ok:
        return Outcome(False, msg="value changed when whole atom clusters were moved by lattice vectors: %r -> %r (types %s)" %
                       (a, b, types_of(cv)), sig="lattice", case_text=case, cls=cls)
    moved = any(abs(X2[i][k] - sysd["pos"][i][k]) > 1.0 for i in range(sysd["natoms"]) for k in range(3))
    return Outcome(True, nontrivial=moved and any(abs(v) > 1e-6 for v in a), cls=cls,
                   strata=["type:" + c["tkey"] for c in cv["comps"]], case_text=case)


# ---------------------------------------------------------------------------------- permutation / duplicates

@st.composite
def spec_permdup(draw, tier):
    s = draw(spec_one(tier, nonscalar_p=6))
    s["perm_seed"] = draw(st.lists(st.integers(0, 1000), min_size=8, max_size=8))
    s["dup"] = draw(st.booleans())
    return s


def permute_group(g, keys, dup):
    g = copy.deepcopy(g)
    changed = False
    if "atoms" in g and len(g["atoms"]) > 1:
        n = len(g["atoms"])
        order = sorted(range(n), key=lambda i: (keys[i % len(keys)] * (i + 3)) % 17)
        if order != list(range(n)):
            changed = True
        g["atoms"] = [g["atoms"][i] for i in order]
        g["form"] = "numbers"
        if "refpos" in g and "fitgroup" not in g:
            g["refpos"] = [g["refpos"][i] for i in order]
        g["_order"] = order
    if "fitgroup" in g:
        n = len(g["fitgroup"])
        order = sorted(range(n), key=lambda i: (keys[(i + 2) % len(keys)] * (i + 5)) % 13)
        if order != list(range(n)):
            changed = True
        g["fitgroup"] = [g["fitgroup"][i] for i in order]
        g["refpos"] = [g["refpos"][i] for i in order]
    if dup and "atoms" in g:
        g["atoms"] = g["atoms"] + [g["atoms"][0]]
        g["form"] = "numbers"
        changed = True
    return g, changed


def check_permdup(spec, ctx):
    sysd, cv = spec["sys"], spec["cv"]
    t0 = cv["comps"][0]["comp"]["type"]
    if any(c["comp"]["type"] in ("cartesian", "distancePairs") for c in cv["comps"]):
        return Outcome(True, strata=["order_dependent"])
    cv2 = copy.deepcopy(cv)
    changed = False
    for c in cv2["comps"]:
        comp = c["comp"]
        newgroups = []
        for key, g in comp["groups"]:
            g2, ch = permute_group(g, spec["perm_seed"], spec["dup"])
            changed = changed or ch
            order = g2.pop("_order", None)
            if order is not None and key == "atoms" and "refpos" in comp:
                comp["refpos"] = [comp["refpos"][i] for i in order]
                comp["kv"]["refPositions"] = " ".join(gen.vec3(p) for p in comp["refpos"])
                if "vector" in comp:
                    comp["vector"] = [comp["vector"][i] for i in order]
                    comp["kv"]["vector"] = " ".join(gen.vec3(p) for p in comp["vector"])
            newgroups.append((key, g2))
        comp["groups"] = newgroups
    cfg1 = build_cfg(cv, ctx["workdir"])
    cfg2 = build_cfg(cv2, ctx["workdir"])
    res, bad = run_values(sysd, [(cfg1, sysd["pos"]), (cfg2, sysd["pos"])], ctx["workdir"])
    if bad:
        return bad
    (vals, case) = res
    a, b = vals
    tol = 1e-7 if fitted(cv) else 1e-10
    per = cv.get("periodic")
    ok = close(b, a, tol, per) or (cv["vtype"] == gen.QUAT and close(b, [-v for v in a], tol))
    if not ok and not per and any(c["comp"].get("periodic") for c in cv["comps"]):
        return Outcome(True, strata=["seam"])
    cls = (types_of(cv), "dup" if spec["dup"] else "perm")
    if not ok:
        return Outcome(False, msg="value changed under reordering/duplicate listing of group atoms: %r -> %r (types %s)" %
                       (a, b, types_of(cv)), sig="permdup", case_text=case, cls=cls)
    return Outcome(True, nontrivial=changed and any(abs(v) > 1e-6 for v in a), cls=cls,
                   strata=["type:" + c["tkey"] for c in cv["comps"]] + (["dup"] if spec["dup"] else ["perm"]), case_text=case)


# ---------------------------------------------------------------------------------- quaternion sign, least squares

@st.composite
def spec_qsign(draw, tier):
    sysd = draw(gen.system(4, 10, cell=False))
    comp = draw(gen.comp_orientation(sysd, "orientation"))
    q = gen.quat_mul(draw(gen.unit_quat()), gen.GENERIC_QUAT)
    c = [gen.rnd(v, 6) for v in gen.quat_mul(draw(gen.unit_quat()), gen.GENERIC_QUAT)]
    return {"sys": sysd, "comp": comp, "closest": [gen.rnd(v, 6) for v in q], "center": c,
            "k": gen.rnd(draw(gen.fl(0.5, 20)), 3)}


def check_qsign(spec, ctx):
    sysd = spec["sys"]

    def cfg(closest, center):
        comp = copy.deepcopy(spec["comp"])
        comp["kv"]["closestToQuaternion"] = gen.vec3(closest)
        cv = {"name": "cv1", "comps": [{"comp": comp, "coeff": 1.0, "exp": 1, "tkey": "orientation"}], "vtype": gen.QUAT}
        return gen.render_colvar(cv) + "\nharmonic {\n  name h\n  colvars cv1\n  centers %s\n  forceConstant %s\n}\n" % (
            gen.vec3(center), gen.fmt(spec["k"]))
    neg = lambda v: [-x for x in v]
    L = gen.case_header(sysd)
    combos = [(spec["closest"], spec["center"]), (neg(spec["closest"]), spec["center"]),
              (spec["closest"], neg(spec["center"])), (neg(spec["closest"]), neg(spec["center"]))]
    for i, (cl, ce) in enumerate(combos):
        if i:
            L.append("reset")
        L += [gen.config_block(cfg(cl, ce)), gen.pos_line(sysd["pos"]), "step"]
    case = "\n".join(L) + "\n"
    r = run_case(case)
    if r.crashed:
        return Outcome(False, msg="crash %s" % r.stderr[-500:], sig="crash", case_text=case)
    if any(c["rc"] for c in r.of("config")):
        return Outcome(False, msg="config rejected %s" % [c["errs"] for c in r.of("config")], sig="gen_invalid", case_text=case)
    steps = r.of("step")
    E = [s["E"] for s in steps]
    q = [s["cv"][0]["x"] for s in steps]
    F = [s["F"] for s in steps]
    msgs = []
    if not close(q[1], neg(q[0]), 1e-9) and not close(q[1], q[0], 1e-9):
        msgs.append("closestToQuaternion -c does not give +-q: %r vs %r" % (q[0], q[1]))
    for i in (1, 2, 3):
        if abs(E[i] - E[0]) > 1e-9 * max(1.0, abs(E[0])):
            msgs.append("restraint energy changes under the sign ambiguity: %r vs %r (combo %d)" % (E[0], E[i], i))
        for fa, fb in zip(F[0], F[i]):
            if not close(fa, fb, 1e-8):
                msgs.append("atomic forces change under the sign ambiguity (combo %d)" % i)
                break
    flipped = close(q[1], neg(q[0]), 1e-9)
    if msgs:
        return Outcome(False, msg="; ".join(msgs[:3]), sig="qsign", case_text=case)
    return Outcome(True, nontrivial=E[0] > 1e-9, cls=("flipped" if flipped else "same",), strata=["flipped" if flipped else "same"],
                   case_text=case)


@st.composite
def spec_lsq(draw, tier):
    sysd = draw(gen.system(4, 10, cell=False))
    comp = draw(gen.comp_rmsd(sysd))
    qs = [gen.quat_mul(draw(gen.unit_quat()), gen.GENERIC_QUAT) for _ in range(8)]
    return {"sys": sysd, "comp": comp, "qs": qs}


def check_lsq(spec, ctx):
    sysd, comp = spec["sys"], spec["comp"]
    cv = {"name": "cv1", "comps": [{"comp": comp, "coeff": 1.0, "exp": 1, "tkey": "rmsd"}], "vtype": gen.SCALAR}
    res, bad = run_values(sysd, [(gen.render_colvar(cv), sysd["pos"])], ctx["workdir"])
    if bad:
        return bad
    (vals, case) = res
    v = vals[0][0]
    idx = [a - 1 for a in dict(comp["groups"])["atoms"]["atoms"]]
    X = np.array(sysd["pos"])[idx]
    ref = np.array(comp["refpos"])
    Xc, Rc = X - X.mean(0), ref - ref.mean(0)
    R, s = refmodel.kabsch(Xc, Rc)
    best = math.sqrt((((Xc @ R.T) - Rc) ** 2).sum() / len(X))
    if abs(v - best) > 1e-8 * max(1.0, best):
        return Outcome(False, msg="rmsd %r but the least-squares optimum is %r" % (v, best), sig="lsq_optimum", case_text=case)
    # perturbations of the optimum and arbitrary rotations never do better
    for q in spec["qs"]:
        for scale in (1.0, 0.05, 0.002):
            qq = np.array(q, float)
            qq = np.array([1.0, 0, 0, 0]) * (1 - scale) + qq * scale
            qq /= np.linalg.norm(qq)
            Rp = np.array(gen.quat_to_mat(qq.tolist())) @ R
            other = math.sqrt((((Xc @ Rp.T) - Rc) ** 2).sum() / len(X))
            if other < v - 1e-9:
                return Outcome(False, msg="a rotation gives a smaller deviation (%r) than the reported rmsd (%r)" % (other, v),
                               sig="lsq_not_minimum", case_text=case)
    return Outcome(True, nontrivial=v > 1e-6, cls=("n%d" % len(idx),), strata=["n%d" % len(idx)], case_text=case)


def sample_view(spec):
    if "cv" in spec:
        return {"natoms": spec["sys"]["natoms"], "cell": spec["sys"]["cell"], "variable": gen.render_colvar(spec["cv"]),
                "transform": {k: spec[k] for k in ("q", "t", "shifts", "dup") if k in spec}}
    return {"natoms": spec["sys"]["natoms"], "component": spec["comp"]["type"]}


PARTS = {
    "refmodel": {"strategy": spec_one, "check": check_refmodel, "examples": {"quick": 4800, "thorough": 40000}, "sample": sample_view},
    "rigid": {"strategy": spec_rigid, "check": check_rigid, "examples": {"quick": 3200, "thorough": 30000}, "sample": sample_view},
    "lattice": {"strategy": spec_lattice, "check": check_lattice, "examples": {"quick": 2400, "thorough": 20000}, "sample": sample_view},
    "permdup": {"strategy": spec_permdup, "check": check_permdup, "examples": {"quick": 2400, "thorough": 20000}, "sample": sample_view},
    "qsign": {"strategy": spec_qsign, "check": check_qsign, "examples": {"quick": 800, "thorough": 6000}, "sample": sample_view},
    "lsq": {"strategy": spec_lsq, "check": check_lsq, "examples": {"quick": 800, "thorough": 6000}, "sample": sample_view},
}
