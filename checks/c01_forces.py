"""C01: applied atomic forces = -grad of the energy reported to the engine (finite differences)."""
import math
import os
from hypothesis import strategies as st
from lib import gen, biases
from lib.gen import fl, rnd
from lib.core import Outcome, run_case, fnum

ID = "C01"
LEVEL = "exploration"
RULE = ("Hypothesis generates a system (4-12 atoms, masses, charges, optional orthorhombic cell), 1-2 variables of 1-3 "
        "components (type table in lib/gen.py, coefficients/exponents, atom-group options incl. fitted frames) and 1-2 "
        "biases; oracle = Richardson central differences of the engine-visible energy vs. applied atomic forces for every "
        "engine atom. Non-trivial: |E|>1e-9, >=2 atoms with |F|>1e-9 and FD well conditioned; distinct by spec hash; "
        "classes = (sorted component types, bias types, cell, fit options).")
ASSUMPTIONS = ["finite differences resolve errors above ~1e-6 relative", "time-step factor 1, no extended Lagrangian"]

H = 1e-3
ETA = 1e-2


def values_of(rec):
    return [cv["x"] for cv in rec["cv"]]


@st.composite
def spec_restraints(draw, tier):
    sysd = draw(gen.system(4, 12))
    ncv = draw(st.sampled_from([1, 1, 2]))
    cvs = []
    for i in range(ncv):
        if draw(st.integers(0, 4)) == 0:
            cvs.append(draw(gen.nonscalar_colvar(sysd, "cv%d" % (i + 1))))
        else:
            cvs.append(draw(gen.scalar_colvar(sysd, "cv%d" % (i + 1))))
    for cv in cvs:
        # restraint forces scale with 1/width (linear) or 1/width^2 (harmonic): the energy must scale alike
        w = draw(st.sampled_from([1.0, 1.0, 0.5, 2.0, 0.25]))
        if w != 1.0:
            cv["kv"] = dict(cv.get("kv") or {}, width=gen.fmt(w))
    nb = draw(st.sampled_from([1, 1, 2]))
    bs = []
    for j in range(nb):
        kinds = ["harmonic", "harmonic", "linear"]
        if any(c["vtype"] == gen.SCALAR for c in cvs):
            kinds += ["harmonicWalls", "harmonicWalls"]
        if any((c["vtype"] == gen.SCALAR and not c.get("periodic")) or c["vtype"] == gen.VECN for c in cvs):
            kinds += ["histogramRestraint"]
        k = draw(st.sampled_from(kinds))
        mk = {"harmonic": biases.harmonic, "linear": biases.linear, "harmonicWalls": biases.harmonic_walls,
              "histogramRestraint": biases.histogram_restraint}[k]
        b = draw(mk(cvs, name="b%d" % (j + 1)))
        if b is None:
            b = draw(biases.harmonic(cvs, name="b%d" % (j + 1)))
        bs.append(b)
    # whole-group lattice displacement of some atoms (minimum image must undo it)
    shifts = None
    if sysd["cell"]:
        if gen.uses_fit(cvs):
            # centred/rotated groups are moved onto their reference positions (within ~ +-16 of the origin)
            sysd["cell"] = [c * 3.0 for c in sysd["cell"]]
        if draw(st.booleans()):
            shifts = [[draw(st.integers(-1, 1)) for _ in range(3)] for _ in range(sysd["natoms"])]
    return {"sys": sysd, "cvs": cvs, "biases": bs, "shifts": shifts}


def build_config(spec, values, workdir, with_biases=True):
    igs = []
    parts = []
    for cv in spec["cvs"]:
        parts.append(gen.render_colvar(cv, igs))
    head = ""
    if igs:
        path = os.path.join(workdir, "index_%d.ndx" % os.getpid())
        open(path, "w").write(gen.render_index_file(igs))
        head = "indexFile %s\n" % path
    if with_biases:
        for b in spec["biases"]:
            parts.append(biases.render_bias(b, spec["cvs"], values))
    return head + "\n".join(parts)


def check_restraints(spec, ctx):
    sysd = spec["sys"]
    pos = [list(p) for p in sysd["pos"]]
    if spec.get("shifts") and sysd["cell"]:
        pos = gen.lattice_shifted_positions(sysd, spec["cvs"], spec["shifts"])
    head = gen.case_header(sysd)
    # pass 1: values
    cfg1 = build_config(spec, None, ctx["workdir"], with_biases=False)
    case1 = "\n".join(head + [gen.config_block(cfg1), gen.pos_line(pos), "step"]) + "\n"
    r1 = run_case(case1)
    if r1.crashed:
        return Outcome(False, msg="crash in pass 1 rc=%s\n%s" % (r1.returncode, r1.stderr), sig="crash", case_text=case1)
    cfgrec = r1.of("config")[0]
    if cfgrec["rc"] != 0:
        # the generator is supposed to produce valid configurations only
        return Outcome(False, msg="generated configuration rejected: %s" % cfgrec["errs"], sig="gen_invalid", case_text=case1)
    steps = r1.of("step")
    if not steps or steps[0]["errbits"]:
        return Outcome(False, msg="step failed in pass 1: %s" % (steps[0]["errs"] if steps else "no record"),
                       sig="step_error", case_text=case1)
    values = values_of(steps[0])
    for v in values:
        if any((not math.isfinite(x)) for x in v):
            return Outcome(discard=True)
    # pass 2: with biases, FD
    cfg2 = build_config(spec, values, ctx["workdir"])
    case2 = "\n".join(head + [gen.config_block(cfg2), gen.pos_line(pos), "step", "fd %s 0 %s" % (fnum(H), fnum(ETA))]) + "\n"
    r2 = run_case(case2)
    if r2.crashed:
        return Outcome(False, msg="crash rc=%s\n%s" % (r2.returncode, r2.stderr), sig="crash", case_text=case2)
    c2 = r2.of("config")[0]
    if c2["rc"] != 0:
        return Outcome(False, msg="generated configuration (with biases) rejected: %s" % c2["errs"], sig="gen_invalid",
                       case_text=case2)
    fd = r2.of("fd")
    if not fd:
        return Outcome(False, msg="no fd record; stderr=%s" % r2.stderr, sig="no_fd", case_text=case2)
    return compare_fd(spec, fd[0], r2.of("step")[0], case2)


def compare_fd(spec, fd, step, case_text, extra_cls=()):
    n = spec["sys"]["natoms"]
    if fd["errbits"]:
        return Outcome(False, msg="error bits set during FD: %s" % fd["errs"], sig="fd_error", case_text=case_text)
    E0 = fd["E0"]
    if abs(fd["E1"] - E0) > 1e-12 * max(1.0, abs(E0)):
        return Outcome(False, msg="energy at the base point changed while probing: %r -> %r" % (E0, fd["E1"]),
                       sig="state_drift", case_text=case_text)
    if abs(step["E"] - E0) > 1e-12 * max(1.0, abs(E0)):
        return Outcome(False, msg="energy of repeated evaluation differs from the step: %r vs %r" % (step["E"], E0),
                       sig="state_drift", case_text=case_text)
    F = [[0.0, 0.0, 0.0] for _ in range(n)]
    for slot, aid in enumerate(fd["ids"]):
        for d in range(3):
            F[aid][d] += fd["F0"][slot][d]
    fmax = max(abs(c) for f in F for c in f)
    h = fd["h"]
    worst = None
    illcond = False
    singular = False
    nforce = 0
    for a in range(n):
        if max(abs(c) for c in F[a]) > 1e-9:
            nforce += 1
        for d in range(3):
            ep, em, ep2, em2, ep4, em4 = fd["D"][a][d]
            if not all(math.isfinite(x) for x in (ep, em, ep2, em2, ep4, em4)):
                illcond = True
                continue
            # kink detector: for a differentiable energy the one-sided slopes differ by h*f'' (halves with h);
            # at a non-differentiable point (documented singular geometries) the difference does not shrink
            k1 = (ep - E0) / h - (E0 - em) / h
            k2 = (ep2 - E0) / (0.5 * h) - (E0 - em2) / (0.5 * h)
            if abs(k1) > 1e-5 * max(1.0, fmax) and abs(k2) > 0.75 * abs(k1):
                singular = True
                continue
            # central differences at h, h/2, h/4.  Two pairs of step sizes: an energy that is C1 but not C2 at the base point (a
            # wall placed exactly at the value) makes the error first order in h, and with a single pair that term can cancel
            # against the second-order term of another bias in the error estimate (seen once in 10^5 cases); it cannot cancel in
            # both pairs.  The extrapolation uses the two smallest steps, the tolerance the larger of the two estimates.
            Dh = (ep - em) / (2 * h)
            Dh2 = (ep2 - em2) / h
            Dh4 = (ep4 - em4) / (0.5 * h)
            Dr = (4 * Dh4 - Dh2) / 3.0
            est = max(abs(Dh4 - Dh2), 0.25 * abs(Dh2 - Dh))
            # measured rounding noise of the energy (tiny displacements, see the fd command) enters every difference quotient
            noise = fd["N"][3 * a + d] if "N" in fd else 0.0
            roundoff = 4e-12 * max(abs(E0), abs(ep), 1e-3) / h + 16.0 * noise / h
            if roundoff > 1e-4 * max(1.0, fmax):
                illcond = True
                continue
            if est > 1e-4 * max(1.0, fmax):
                illcond = True
                continue
            tol = 1e-6 * max(1.0, fmax) + 10.0 * est + roundoff
            dev = abs(F[a][d] + Dr)
            if dev > tol and (worst is None or dev / tol > worst[0]):
                worst = (dev / tol, a, d, F[a][d], -Dr, tol)
    types = sorted(c["tkey"] for cv in spec["cvs"] for c in cv["comps"])
    btypes = sorted(b["type"] for b in spec.get("biases", []))
    opts = set()
    for cv in spec["cvs"]:
        if cv.get("scripted"):
            opts.add("scripted")
        for c in cv["comps"]:
            if c["exp"] != 1:
                opts.add("exp")
            if c["coeff"] != 1.0:
                opts.add("coeff")
            for _, g in c["comp"]["groups"]:
                if g.get("rotate"):
                    opts.add("rot")
                elif g.get("center"):
                    opts.add("ctr")
                if "fitgroup" in g:
                    opts.add("fitgrp")
                if "dummy" in g:
                    opts.add("dummy")
    if spec.get("shifts") and any(any(v) for v in spec["shifts"]):
        opts.add("latshift")
    cls = (",".join(types), ",".join(btypes), "cell" if spec["sys"]["cell"] else "nocell", ",".join(sorted(opts))) + tuple(extra_cls)
    strata = ["type:" + t for t in set(types)] + ["bias:" + t for t in set(btypes)] + ["opt:" + o for o in opts]
    if worst is not None:
        _, a, d, f, g, tol = worst
        return Outcome(False, msg="atom %d coord %d: applied force %r but -dE/dx = %r (tol %.3g); E=%r; types=%s biases=%s" %
                       (a, d, f, g, tol, E0, types, btypes), sig="force_mismatch", case_text=case_text, cls=cls)
    nontrivial = (abs(E0) > 1e-9) and nforce >= 2 and not illcond and not singular
    if illcond:
        strata.append("illconditioned")
    if singular:
        strata.append("singular_point")
    return Outcome(True, nontrivial=nontrivial, cls=cls, strata=strata, case_text=case_text)


def sample_view(spec):
    return {"natoms": spec["sys"]["natoms"], "cell": spec["sys"]["cell"],
            "variables": [gen.render_colvar(cv, None) for cv in spec["cvs"]],
            "biases": [{k: v for k, v in b.items()} for b in spec["biases"]]}


PARTS = {
    "restraints": {"strategy": spec_restraints, "check": check_restraints,
                   "examples": {"quick": 6400, "thorough": 60000}, "sample": sample_view},
}


# ------------------------------------------------------------------------------------------------------------
# history-dependent biases with analytic kernels, evaluated with their state frozen (DESIGN 3.3)

@st.composite
def spec_history(draw, tier):
    sysd = draw(gen.system(4, 12))
    kind = draw(st.sampled_from(["meta_nogrid", "meta_nogrid", "opes", "abmd"]))
    if kind == "meta_nogrid" and draw(st.integers(0, 3)) == 0:
        cv = draw(gen.nonscalar_colvar(sysd, "cv1"))
    else:
        cv = draw(gen.scalar_colvar(sysd, "cv1", allow_scripted=False))
    K = draw(st.integers(3, 7))
    n = sysd["natoms"]
    jit = [[[rnd(draw(fl(-0.08, 0.08)), 3) for _ in range(3)] for _ in range(n)] for _ in range(K + 1)]
    return {"sys": sysd, "cvs": [cv], "biases": [], "kind": kind, "K": K, "jit": jit, "W": rnd(draw(fl(0.2, 3.0)), 2),
            "hw": draw(st.sampled_from([1.0, 2.0, 3.0])), "k": rnd(draw(fl(0.5, 20.0)), 2), "shifts": None}


def check_history(spec, ctx):
    sysd = spec["sys"]
    n = sysd["natoms"]
    if sysd["cell"] and gen.uses_fit(spec["cvs"]):
        sysd = dict(sysd)
        sysd["cell"] = [c * 3.0 for c in sysd["cell"]]
        spec = dict(spec)
        spec["sys"] = sysd
    head = gen.case_header(sysd, extra=["temperature 0x1.2c00000000000p+8"])
    K = spec["K"]
    poss = [[[sysd["pos"][a][k] + spec["jit"][t][a][k] for k in range(3)] for a in range(n)] for t in range(K + 1)]
    cv = spec["cvs"][0]
    # pass 1: values along the priming trajectory
    cfg1 = build_config(spec, None, ctx["workdir"], with_biases=False)
    L1 = head + [gen.config_block(cfg1)]
    for t in range(K + 1):
        L1 += [gen.pos_line(poss[t]), "step"]
    r1 = run_case("\n".join(L1) + "\n")
    if r1.crashed or r1.of("config")[0]["rc"] != 0 or any(s["errbits"] for s in r1.of("step")):
        return Outcome(False, msg="pass 1 failed: %s" % r1.stderr[-300:], sig="gen_invalid", case_text="\n".join(L1))
    xs = [s["cv"][0]["x"] for s in r1.of("step")]
    if any(not math.isfinite(c) for x in xs for c in x):
        return Outcome(discard=True)
    kind = spec["kind"]
    scalar = cv["vtype"] == gen.SCALAR
    spread = max(max(abs(a - b) for a, b in zip(xs[i], xs[0])) for i in range(K + 1))
    if spread < 1e-9:
        return Outcome(discard=True)
    width = max(spread, 1e-3)
    order = list(range(K + 1))
    if kind == "abmd":
        # finish where the variable is lowest, so that the ratchet (which follows the maximum) pulls
        order.sort(key=lambda t: -xs[t][0])
        # the probes must stay below the ratchet, or they move it (by design): the gap has to exceed the largest probe displacement
        # of the variable, h * |gradient| with h <= 1e-3
        if xs[order[0]][0] - xs[order[-1]][0] < 1e-2:
            return Outcome(discard=True)
        if cv.get("periodic"):
            return Outcome(discard=True)
        bias = "abmd {\n  name b1\n  colvars cv1\n  forceConstant %s\n  stoppingValue %s\n}" % (gen.fmt(spec["k"] / (width * width)), gen.fmt(xs[order[0]][0] + 10 * width))
    elif kind == "opes":
        if cv.get("periodic"):
            return Outcome(discard=True)
        bias = "opes_metad {\n  name b1\n  colvars cv1\n  newHillFrequency 3\n  barrier 10.0\n  gaussianSigma %s\n}" % gen.fmt(width)
    else:
        bias = "metadynamics {\n  name b1\n  colvars cv1\n  hillWeight %s\n  hillWidth %s\n  newHillFrequency 2\n  useGrids off\n}" % (gen.fmt(spec["W"]), gen.fmt(spec["hw"]))
    igs = []
    cvtext = gen.render_colvar(cv, igs, extra={"width": gen.fmt(width)})
    headcfg = ""
    if igs:
        path = os.path.join(ctx["workdir"], "index_h_%d.ndx" % os.getpid())
        open(path, "w").write(gen.render_index_file(igs))
        headcfg = "indexFile %s\n" % path
    L2 = head + [gen.config_block(headcfg + cvtext + "\n" + bias)]
    for t in order:
        L2 += [gen.pos_line(poss[t]), "step"]
    # K+1 evaluations were made at steps 0..K; the frozen evaluations repeat step K, which must not be a deposition step
    if kind == "opes" and K % 3 == 0:
        L2 += [gen.pos_line(poss[order[-1]]), "step"]
    if kind == "meta_nogrid" and False:
        pass
    L2.append("fd %s 0 %s" % (fnum(H), fnum(ETA)))
    case2 = "\n".join(L2) + "\n"
    r2 = run_case(case2)
    if r2.crashed:
        return Outcome(False, msg="crash rc=%s\n%s" % (r2.returncode, r2.stderr), sig="crash", case_text=case2)
    c2 = r2.of("config")[0]
    if c2["rc"] != 0:
        return Outcome(False, msg="generated configuration rejected: %s" % c2["errs"], sig="gen_invalid", case_text=case2)
    if any(s["errbits"] for s in r2.of("step")):
        return Outcome(False, msg="step error: %s" % [s["errs"] for s in r2.of("step") if s["errbits"]][:1], sig="step_error", case_text=case2)
    fd = r2.of("fd")
    if not fd:
        return Outcome(False, msg="no fd record; stderr=%s" % r2.stderr, sig="no_fd", case_text=case2)
    sp2 = dict(spec)
    sp2["biases"] = [{"type": kind}]
    # the FD probe evaluates the repeated last step first: compare with that evaluation, not with the advancing step
    last = dict(r2.of("step")[-1])
    last["E"] = fd[0]["E0"]
    out = compare_fd(sp2, fd[0], last, case2, extra_cls=("history",))
    if kind == "abmd" and not out.ok and out.sig == "state_drift" and xs[order[0]][0] - xs[order[-1]][0] < 100.0 * fd[0]["h"]:
        return Outcome(discard=True)      # gradient > 10: a probe may have crossed the ratchet
    out.strata = list(out.strata or []) + ["hist:" + kind]
    return out


PARTS["history"] = {"strategy": spec_history, "check": check_history, "examples": {"quick": 2400, "thorough": 24000}, "sample": sample_view}
REQUIRED_STRATA = {"all": ["history:hist:meta_nogrid", "history:hist:opes", "history:hist:abmd"]}


# --------------------------------------------------------------------------------------------
# analytic hills on a periodic variable, deposited on both sides of the periodic boundary: energy and force must use the same
# (minimum-image) distance

@st.composite
def spec_phills(draw, tier):
    P = draw(st.sampled_from([2.0, 4.0, 6.0]))
    lower = draw(st.sampled_from([-3.0, 0.0, 1.0]))
    width = draw(st.sampled_from([0.25, 0.5]))
    hw = draw(st.sampled_from([1.0, 2.0]))
    sigma = 0.5 * hw * width
    K = draw(st.integers(2, 6))
    side = draw(st.sampled_from([lower, lower + P]))       # both names of the boundary
    offs = [rnd(draw(fl(-2.0, 2.0)) * sigma, 3) for _ in range(K)]
    last = rnd(draw(fl(-1.5, 1.5)) * sigma, 3)
    return {"P": P, "lower": lower, "width": width, "hw": hw, "W": rnd(draw(fl(0.2, 3.0)), 2), "side": side, "offs": offs, "last": last,
            "wt": draw(st.booleans())}


def check_phills(spec, ctx):
    from lib import cvz
    P, lower = spec["P"], spec["lower"]

    def wrapped(x):
        return x - P * math.floor((x - lower) / P)
    cfg = cvz.zvar("z0", 1, lower, lower + P, spec["width"], periodic=True)
    cfg += "\nmetadynamics {\n  name b1\n  colvars z0\n  hillWeight %s\n  hillWidth %s\n  newHillFrequency 1\n  useGrids off\n%s}\n" % (
        gen.fmt(spec["W"]), gen.fmt(spec["hw"]), "  wellTempered on\n  biasTemperature 2000\n" if spec["wt"] else "")
    L = cvz.header(2, 0, temperature=300.0) + ["config <<END\n%s\nEND" % cfg]
    xs = [wrapped(spec["side"] + o) for o in spec["offs"]] + [wrapped(spec["side"] + spec["last"])]
    # step 0 deposits nothing; the hills are deposited at steps 1..K; the last position is evaluated as a repeated first step
    L += [cvz.pos_line_z([xs[0]], 2), "step"]
    for x in xs[:-1]:
        L += [cvz.pos_line_z([x], 2), "step"]
    L += [cvz.pos_line_z([xs[-1]], 2), "fd %s 0 %s" % (fnum(H), fnum(ETA))]
    case = "\n".join(L) + "\n"
    r = run_case(case)
    if r.crashed:
        return Outcome(False, msg="crash rc=%s\n%s" % (r.returncode, r.stderr), sig="crash", case_text=case)
    if r.of("config")[0]["rc"] != 0:
        return Outcome(False, msg="generated configuration rejected: %s" % r.of("config")[0]["errs"], sig="gen_invalid", case_text=case)
    fd = r.of("fd")
    if not fd:
        return Outcome(False, msg="no fd record; stderr=%s" % r.stderr, sig="no_fd", case_text=case)
    sp2 = {"sys": {"natoms": 2, "cell": None}, "cvs": [{"comps": [{"tkey": "distanceZ_periodic", "exp": 1, "coeff": 1.0, "comp": {"groups": []}}]}],
           "biases": [{"type": "meta_nogrid"}]}
    last = {"E": fd[0]["E0"]}
    out = compare_fd(sp2, fd[0], last, case, extra_cls=("phills",))
    # a hill centre on the other side of the boundary from the evaluation point, within reach by the minimum image
    sigma = 0.5 * spec["hw"] * spec["width"]
    across = sum(1 for c in xs[:-1] if abs(c - xs[-1]) > 0.5 * P and P - abs(c - xs[-1]) < 3.0 * sigma)
    if out.ok:
        out.nontrivial = across >= 1 and abs(fd[0]["E0"]) > 1e-9
    out.strata = list(out.strata or []) + ["phills"] + (["phills_across"] if across else [])
    return out


PARTS["periodic_hills"] = {"strategy": spec_phills, "check": check_phills, "examples": {"quick": 1600, "thorough": 20000}, "sample": lambda s_: s_}
REQUIRED_STRATA = {"all": REQUIRED_STRATA["all"] + ["periodic_hills:phills_across"]}
