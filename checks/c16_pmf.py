"""C16: PMF integration solves the stated discrete problem; incremental equals batch (rapidcheck, direct API)."""
from lib import rcrun

ID = "C16"
LEVEL = "exploration"
RULE = ("rapidcheck on integrate_potential built through real variables (boundaries, widths, periodicity from the ABF path): "
        "(1-D) generated mean gradients and counts, 2-30 bins, periodic or not: surface = cumulative sum x width with the mean "
        "removed if periodic (rel 1e-12); (2-D/3-D) grids 3-12 per dimension, anisotropic widths, every periodic/open mix, "
        "samples arriving in generated orders with repetitions through acc_force + update_div_neighbors: incremental "
        "divergence = set_div() from the final data; stored divergence = the harness's own node divergence at interior and "
        "periodic nodes; when the solver reports convergence the harness's own 5-/7-point Laplacian of the solution equals the "
        "divergence at those nodes; (convergence) gradients sampled from smooth analytic surfaces at h, h/2, h/4: the error "
        "(constant removed) shrinks by >= 3.2 per halving, for all periodic/open combinations. Non-trivial: non-constant field, "
        "arrival order with a repeated bin.")
ASSUMPTIONS = ["boundary nodes of open dimensions are checked through the convergence test only (the manual does not give their discrete equations)"]
N = {"quick": 120000, "thorough": 1500000}


def runner(tier, seed):
    return rcrun.run_rc(ID, "pmf", "rc_c16", tier, seed, N[tier] // 3, ["oned.nontrivial", "oned.periodic_unsampled", "nd.nontrivial", "conv.nontrivial"], maxsize=100)


PARTS = {"pmf": {"runner": runner, "replay": rcrun.replay_rc}}
REQUIRED_STRATA = {"all": ["pmf:nd.converged", "pmf:nd.has_open_dim", "pmf:nd.dim3", "pmf:conv.periodic00", "pmf:conv.periodic11", "pmf:oned.periodic"]}


# --------------------------------------------------------------------------------------------
# through the ABF bias: the divergence ABF keeps up to date sample by sample (update_div_neighbors from its update()) gives the same
# free-energy surface as a fresh instance that reads the final gradients and counts (set_div over the whole grid)
import os
from hypothesis import strategies as st
from lib import cvz
from lib.gen import fl, rnd
from lib.core import Outcome, run_case, pct


@st.composite
def spec_abf_fly(draw, tier):
    nd = draw(st.sampled_from([2, 2, 2, 3]))
    nb = [draw(st.integers(3, 5 if nd == 3 else 7)) for _ in range(nd)]
    per = [draw(st.integers(0, 3)) == 0 for _ in range(nd)]
    T = draw(st.integers(4, 40))
    pool = [[draw(st.integers(0, nb[i] - 1)) for i in range(nd)] for _ in range(draw(st.integers(1, 6)))]
    steps = []
    for _ in range(T):
        b = draw(st.sampled_from(pool)) if draw(st.integers(0, 3)) else [draw(st.integers(-1, nb[i])) for i in range(nd)]
        steps.append({"b": b, "f": [rnd(draw(fl(-6, 6)), 2) for _ in range(nd)]})
    return {"nd": nd, "nb": nb, "per": per, "steps": steps, "full": draw(st.integers(1, 6)), "min": draw(st.sampled_from([None, 0, 1, 2, 3])),
            "order_rev": draw(st.booleans())}


def abf_fly_cfg(spec, prefix_in=None):
    cfg = []
    for i in range(spec["nd"]):
        cfg.append(cvz.zvar("z%d" % i, i + 1, 0.0, 0.5 * spec["nb"][i], 0.5, periodic=spec["per"][i]))
    L = ["abf {", "  name a", "  colvars " + " ".join("z%d" % i for i in range(spec["nd"])), "  fullSamples %d" % spec["full"], "  integrate on",
         "  integrateTol 1e-11", "  integrateMaxIterations 20000", "  applyBias off"]
    if spec["min"] is not None and spec["min"] < spec["full"]:
        L.append("  minSamples %d" % spec["min"])
    if prefix_in:
        L.append("  inputPrefix %s" % prefix_in)
    L.append("}")
    return "\n".join(cfg) + "\n" + "\n".join(L) + "\n"


def read_pmf(path):
    try:
        return [float(l.split()[-1]) for l in open(path) if l.strip() and not l.startswith("#")]
    except (OSError, ValueError):
        return None


def check_abf_fly(spec, ctx):
    nd = spec["nd"]
    d = os.path.join(ctx["workdir"], "c16f_%d" % os.getpid())
    os.makedirs(d, exist_ok=True)
    for f in os.listdir(d):
        os.unlink(os.path.join(d, f))
    nat = nd + 1
    L = cvz.header(nat, 1) + ["outprefix fly", "config <<END\n%s\nEND" % abf_fly_cfg(spec)]
    seq = list(reversed(spec["steps"])) if spec["order_rev"] else spec["steps"]
    for s in [seq[0]] + seq:          # the first step of a run collects nothing
        L += [cvz.pos_line_z([0.25 + 0.5 * b for b in s["b"]], nat), cvz.fsys_line_z(s["f"], nat), "step"]
    L.append("post_run")
    case = "\n".join(L) + "\n"
    r = run_case(case, cwd=d)
    if r.crashed:
        return Outcome(False, msg="crash %s" % r.stderr[-400:], sig="crash", case_text=case)
    if r.of("config")[0]["rc"] != 0:
        return Outcome(False, msg="configuration rejected: %s" % r.of("config")[0]["errs"], sig="gen_invalid", case_text=case)
    if any(s["errbits"] for s in r.of("step")):
        return Outcome(False, msg="step error %s" % [s["errs"] for s in r.of("step") if s["errbits"]][:1], sig="step_error", case_text=case)
    L2 = cvz.header(nat, 1) + ["outprefix batch", "config <<END\n%s\nEND" % abf_fly_cfg(spec, prefix_in="fly"), "post_run"]
    case2 = "\n".join(L2) + "\n"
    r2 = run_case(case2, cwd=d)
    full = case + "\n# ---- second instance: reads fly.grad / fly.count ----\n" + case2
    if r2.crashed:
        return Outcome(False, msg="crash in the instance that reads the data back %s" % r2.stderr[-400:], sig="crash", case_text=full)
    if r2.of("config")[0]["rc"] != 0:
        return Outcome(False, msg="the written gradients/counts are rejected as input: %s" % r2.of("config")[0]["errs"], sig="abf_reload", case_text=full)
    a, b = read_pmf(os.path.join(d, "fly.pmf")), read_pmf(os.path.join(d, "batch.pmf"))
    if a is None or b is None or len(a) != len(b):
        return Outcome(False, msg="PMF files missing or of different size (%s, %s)" % (a and len(a), b and len(b)), sig="abf_pmf_files", case_text=full)
    scale = max(1.0, max(abs(v) for v in a + b))
    worst = max(abs(x - y) for x, y in zip(a, b))
    sampled = {}
    for s in seq:
        if all(0 <= s["b"][i] < spec["nb"][i] for i in range(nd)):
            sampled[tuple(s["b"])] = sampled.get(tuple(s["b"]), 0) + 1
    if worst > 1e-6 * scale:
        return Outcome(False, msg="free-energy surface kept up to date during the run differs from the one integrated from the final gradients and counts "
                       "by %r (scale %r): %d-D grid %s, periodic %s, %d sampled bins, fullSamples %d, minSamples %s" % (
                           worst, scale, nd, spec["nb"], spec["per"], len(sampled), spec["full"], spec["min"]), sig="abf_pmf_onthefly", case_text=full)
    low = sum(1 for c in sampled.values() if c <= (spec["min"] if spec["min"] is not None and spec["min"] < spec["full"] else spec["full"] // 2))
    return Outcome(True, nontrivial=len(sampled) >= 2 and scale > 1.0 + 1e-9 or len(sampled) >= 3,
                   cls=("fly", "nd%d" % nd, "per" if any(spec["per"]) else "open"),
                   strata=["fly", "fly_nd%d" % nd] + (["fly_low_count_bin"] if low and len(sampled) > low else []) + (["fly_per"] if any(spec["per"]) else []),
                   case_text=full)


PARTS["abf_onthefly"] = {"strategy": spec_abf_fly, "check": check_abf_fly, "examples": {"quick": 1600, "thorough": 20000},
                         "sample": lambda s: {k: v for k, v in s.items() if k != "steps"}}
REQUIRED_STRATA = {"all": REQUIRED_STRATA["all"] + ["abf_onthefly:fly_low_count_bin", "abf_onthefly:fly_nd3"]}
