"""C16: PMF integration solves the stated discrete problem; incremental equals batch (rapidcheck, direct API)."""
from lib import rcrun

ID = "C16"
LEVEL = "exploration"
RULE = ("rapidcheck on integrate_potential built through real variables (boundaries, widths, periodicity from the ABF path): "
        "(1-D) generated mean gradients and counts, 2-30 bins, periodic or not: surface = cumulative sum x width with the mean "
        "removed if periodic (rel 1e-12); (2-D/3-D) grids 3-12 per dimension, anisotropic widths, every periodic/open mix, "
        "samples arriving in generated orders with repetitions through acc_force + update_div_neighbors: incremental "
        "divergence = set_div() from the final data; stored divergence = the harness's own node divergence at interior and "
        "periodic nodes; when the solver reports convergence the harness's own 5-/7-point Laplacian of the solution equals the "
        "divergence at those nodes; (convergence) gradients sampled from smooth analytic surfaces at h, h/2, h/4: the error "
        "(constant removed) shrinks by >= 3.2 per halving, for all periodic/open combinations. Non-trivial: non-constant field, "
        "arrival order with a repeated bin.")
ASSUMPTIONS = ["boundary nodes of open dimensions are checked through the convergence test only (the manual does not give their discrete equations)"]
N = {"quick": 120000, "thorough": 1500000}


def runner(tier, seed):
    return rcrun.run_rc(ID, "pmf", "rc_c16", tier, seed, N[tier] // 3, ["oned.nontrivial", "oned.periodic_unsampled", "nd.nontrivial", "conv.nontrivial"], maxsize=100)


PARTS = {"pmf": {"runner": runner, "replay": rcrun.replay_rc}}
REQUIRED_STRATA = {"all": ["pmf:nd.converged", "pmf:nd.has_open_dim", "pmf:nd.dim3", "pmf:conv.periodic00", "pmf:conv.periodic11", "pmf:oned.periodic"]}
