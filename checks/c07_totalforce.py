"""C07: total-force measurement is the inverse of force application."""
import math
import os
from hypothesis import strategies as st
from lib import gen, refmodel
from lib.gen import fl, rnd, fmt
from lib.core import Outcome, run_case, fnum

ID = "C07"
LEVEL = "exploration"
RULE = ("Hypothesis generates systems and variables from {distance, distanceZ, distanceXY, angle, dihedral, gyration, rmsd, eigenvector, alchLambda} and "
        "their +-1 combinations over disjoint atoms (masses, multi-atom groups, oneSiteTotalForce), force-timing convention, "
        "temperature, hideJacobian/subtractAppliedForce. Oracles: (inverse) feeding back as atomic total forces exactly what "
        "Colvars applied for a variable force f gives total force f (+ k_B T x documented Jacobian derivative); (linear) "
        "ft(a g1 + b g2) = a ft(g1) + b ft(g2) and forces on atoms outside the groups change nothing; (jacobian) ft(T)-ft(0) "
        "is independent of the atomic forces, proportional to T, equal to the closed form, removed by hideJacobian with "
        "subtractAppliedForce; (timing) under the late convention the value reported at t+1 does not depend on the geometry "
        "of t+1; (alch) alchemical variable driven by an extended-Lagrangian coordinate: reported total force = -dE/dlambda "
        "returned by the engine for the same step (both conventions, with/without subtractAppliedForce and biases), the engine "
        "receives the integrated coordinate, and the coordinate accelerates by (bias force - dE/dlambda)/mass. "
        "Non-trivial: f != 0, >=2 atoms with different masses in a group or force field not parallel to the gradient.")
ASSUMPTIONS = ["combinations use disjoint atoms (cross terms between overlapping components are not claimed to cancel)"]
KB = 0.001987191

TYPES = ["distance", "distanceZ", "distanceXY", "angle", "dihedral", "gyration", "rmsd"]


@st.composite
def tf_colvar(draw, sysd, name="cv1"):
    ncomp = draw(st.sampled_from([1, 1, 2]))
    used = []
    comps = []
    if ncomp == 1 and sysd["natoms"] >= 6 and draw(st.integers(0, 7)) == 0:
        # projection on a vector in a fitted frame (separate fitting group, as the documentation requires for exact forces)
        c = draw(gen.comp_eigenvector(sysd))
        grp = dict(c["groups"])["atoms"]
        # the measurement projects the forces on the main group only: it inverts the applied force when the fitting group (which
        # receives the fit-gradient forces) is disjoint from it
        fitg = [a for a in range(1, sysd["natoms"] + 1) if a not in grp["atoms"]]
        if len(fitg) < 4:
            grp["atoms"] = grp["atoms"][:max(2, sysd["natoms"] - 4)]
            fitg = [a for a in range(1, sysd["natoms"] + 1) if a not in grp["atoms"]]
            c["kv"]["refPositions"] = " ".join(c["kv"]["refPositions"].split(") (")[:len(grp["atoms"])]) if False else c["kv"]["refPositions"]
        grp["fitgroup"] = fitg[:6]
        grp["refpos"] = draw(gen.ref_positions(sysd, grp["fitgroup"]))
        na = len(grp["atoms"])
        c["refpos"] = c["refpos"][:na]
        c["vector"] = c["vector"][:na]
        c["kv"]["refPositions"] = " ".join(gen.vec3(p) for p in c["refpos"])
        c["kv"]["vector"] = " ".join(gen.vec3(p) for p in c["vector"])
        return {"name": name, "comps": [{"comp": c, "coeff": 1.0, "exp": 1, "tkey": "eigenvector"}], "vtype": gen.SCALAR}
    for i in range(ncomp):
        t = draw(st.sampled_from(TYPES))
        n = sysd["natoms"]
        free = [a for a in range(1, n + 1) if a not in used]
        need = {"distance": 2, "distanceZ": 2, "distanceXY": 2, "angle": 3, "dihedral": 4, "gyration": 3, "rmsd": 4}[t]
        if len(free) < need:
            t = "distance"
            need = 2
            if len(free) < 2:
                break
        sub = dict(sysd)
        # draw the component on the free atoms only
        excl = tuple(used)

        budget = [need]

        def grp(kmin, kmax):
            # leave enough free atoms for the groups of this component still to be drawn
            budget[0] -= kmin
            avail = sysd["natoms"] - len(used) - budget[0]
            g = draw(gen.group(sysd, kmin, max(kmin, min(kmax, avail)), exclude=tuple(used), form="numbers"))
            used.extend(g["atoms"])
            return g
        if t == "distance":
            c = {"type": t, "groups": [("group1", grp(1, 2)), ("group2", grp(1, 2))], "kv": {}, "vtype": gen.SCALAR}
            if draw(st.booleans()):
                c["kv"]["oneSiteTotalForce"] = "on"
        elif t in ("distanceZ", "distanceXY"):
            c = {"type": t, "groups": [("main", grp(1, 2)), ("ref", grp(1, 2))], "kv": {"axis": gen.vec3(draw(gen.unit_axis()))},
                 "vtype": gen.SCALAR}
            if draw(st.booleans()):
                c["kv"]["oneSiteTotalForce"] = "on"
        elif t == "angle":
            c = {"type": t, "groups": [("group1", grp(1, 1)), ("group2", grp(1, 1)), ("group3", grp(1, 1))], "kv": {}, "vtype": gen.SCALAR}
            if draw(st.booleans()):
                c["kv"]["oneSiteTotalForce"] = "on"
        elif t == "dihedral":
            c = {"type": t, "groups": [("group%d" % (j + 1), grp(1, 1)) for j in range(4)], "kv": {}, "vtype": gen.SCALAR, "periodic": 360.0}
            if draw(st.booleans()):
                c["kv"]["oneSiteTotalForce"] = "on"
        elif t == "gyration":
            c = {"type": t, "groups": [("atoms", grp(3, 4))], "kv": {}, "vtype": gen.SCALAR}
        else:
            g = grp(4, 5)
            ref = draw(gen.ref_positions(sysd, g["atoms"], perturb=0.6))
            c = {"type": "rmsd", "groups": [("atoms", g)], "kv": {"refPositions": " ".join(gen.vec3(p) for p in ref)},
                 "vtype": gen.SCALAR, "refpos": ref}
        comps.append({"comp": c, "coeff": draw(st.sampled_from([1.0, -1.0])) if ncomp > 1 else 1.0, "exp": 1, "tkey": t})
    cv = {"name": name, "comps": comps, "vtype": gen.SCALAR}
    if comps and all(c["comp"].get("periodic") for c in comps):
        cv["periodic"] = 360.0
    return cv


@st.composite
def spec_tf(draw, tier):
    sysd = draw(gen.system(5, 12, cell=False))
    cv = draw(tf_colvar(sysd))
    n = sysd["natoms"]
    return {"sys": sysd, "cv": cv, "tf": draw(st.sampled_from([1, 2])), "T": draw(st.sampled_from([0.0, 300.0, 300.0])),
            "k": rnd(draw(fl(0.5, 6)) * draw(st.sampled_from([1, -1])), 3),
            "g1": [[rnd(draw(fl(-3, 3)), 2) for _ in range(3)] for _ in range(n)],
            "g2": [[rnd(draw(fl(-3, 3)), 2) for _ in range(3)] for _ in range(n)],
            "a": rnd(draw(fl(-2, 2)), 2), "b": rnd(draw(fl(-2, 2)), 2),
            "hide": draw(st.booleans()), "sub": draw(st.booleans()),
            "move": [[rnd(draw(fl(-0.3, 0.3)), 3) for _ in range(3)] for _ in range(n)]}


def cfg(spec, linear=True, extra_cv=None, hide=False):
    cv = dict(spec["cv"])
    kv = {"outputTotalForce": "on", "width": "1.0"}
    kv.update(extra_cv or {})
    cv["kv"] = kv
    txt = gen.render_colvar(cv)
    if linear:
        # a known constant force; periodic variables do not accept a linear restraint: use a harmonic one
        kind = "harmonic" if spec["cv"].get("periodic") else "linear"
        txt += "\n%s {\n  name lin\n  colvars cv1\n  centers 0.0\n  forceConstant %s\n}\n" % (kind, fmt(abs(spec["k"]) * (0.01 if kind == "harmonic" else 1.0) * (1 if kind == "harmonic" or spec["k"] > 0 else -1)))
    if hide:
        # hideJacobian is an ABF option; a non-applying ABF bias enables it on the variable
        txt += "\nabf {\n  name a\n  colvars cv1\n  applyBias off\n  updateBias off\n  hideJacobian on\n  integrate off\n  fullSamples 2\n}\n"
    return txt


def fsys_line(F):
    return "fsys " + " ".join(fnum(c) for a in F for c in a)


def jac_closed_form(spec):
    """k_B T x Jacobian derivative (documented closed forms) for single components; None if no closed form is asserted"""
    cv = spec["cv"]
    if len(cv["comps"]) != 1:
        return None
    return_scale = cv["comps"][0]["coeff"]     # xi = +-q: the Jacobian derivative changes sign with the coefficient
    c = cv["comps"][0]["comp"]
    S = refmodel.Sys(spec["sys"])
    t = c["type"]
    x = refmodel.component_value(S, c)[0]
    if t == "distance":
        return return_scale * 2.0 / x
    if t == "distanceXY":
        return return_scale * 1.0 / x
    if t in ("distanceZ", "dihedral"):
        return 0.0
    if t == "angle":
        th = math.radians(x)
        return return_scale * math.pi / 180.0 * math.cos(th) / math.sin(th)
    if t == "gyration":
        n = len(dict(c["groups"])["atoms"]["atoms"])
        return return_scale * (3.0 * n - 4.0) / x
    return None


def check_tf(spec, ctx):
    sysd = spec["sys"]
    n = sysd["natoms"]
    pos = sysd["pos"]
    zero = [[0.0] * 3 for _ in range(n)]
    types = ",".join(sorted(c["tkey"] for c in spec["cv"]["comps"]))
    L_mode = spec["tf"] == 2
    kT = KB * spec["T"]
    f_applied = -spec["k"]          # linear restraint, width 1: force = -k
    # which atoms belong to the variable
    mine = set()
    for c in spec["cv"]["comps"]:
        for grp in gen.groups_of_component(c["comp"]):
            mine.update(a - 1 for a in grp)

    def run(lines, tf=None, T=None):
        head = gen.case_header(sysd, tf_mode=spec["tf"] if tf is None else tf)
        head.append("temperature %s" % fnum(spec["T"] if T is None else T))
        case = "\n".join(head + lines) + "\n"
        r = run_case(case)
        return r, case

    # ---------------- (inverse)
    if L_mode:
        lines = [gen.config_block(cfg(spec)), gen.pos_line(pos), fsys_line(zero), "step", "step"]
    else:
        lines = [gen.config_block(cfg(spec)), gen.pos_line(pos), fsys_line(zero), "step", "fsys_feedback", "step"]
    r, case = run(lines)
    if r.crashed:
        return Outcome(False, msg="crash %s" % r.stderr[-400:], sig="crash", case_text=case)
    if r.of("config")[0]["rc"] != 0:
        errs = " ".join(r.of("config")[0]["errs"])
        if "total force" in errs.lower() or "not available" in errs.lower() or "inverse" in errs.lower():
            return Outcome(True, strata=["no_total_force:" + types])
        return Outcome(False, msg="configuration rejected: %s" % errs, sig="gen_invalid", case_text=case)
    steps = r.of("step")
    if any(s["errbits"] for s in steps):
        return Outcome(False, msg="step error %s" % [s["errs"] for s in steps], sig="step_error", case_text=case)
    f_applied = steps[0]["cv"][0]["f"][0]     # the force the restraint applied on the variable at the first step
    # near-singular geometries (almost collinear arms etc.): atomic forces orders of magnitude above the variable force
    fmax_atoms = max(abs(c) for a in steps[0]["F"] for c in a) if steps[0]["F"] else 0.0
    if fmax_atoms > 1e3 * max(1e-12, abs(f_applied)):
        return Outcome(True, strata=["illconditioned"])
    ft = steps[1]["cv"][0].get("ft")
    if ft is None:
        return Outcome(False, msg="total force not reported", sig="no_ft", case_text=case)
    ft = ft[0]
    jac = jac_closed_form(spec)
    # Jacobian contribution measured separately below; here compare ft - f with kT*jd when known, else check T=0 only
    if spec["T"] == 0.0 or jac is not None:
        exp = f_applied + (kT * jac if jac is not None else 0.0)
        if abs(ft - exp) > 1e-8 * max(1.0, abs(exp)):
            return Outcome(False, msg="%s convention: applied variable force %r was fed back as atomic forces, reported total force %r, expected %r "
                           "(Jacobian term %r) [types %s]" % ("late" if L_mode else "same-step", f_applied, ft, exp,
                                                               kT * jac if jac is not None else 0.0, types),
                           sig="inverse", case_text=case)
    strata = ["inverse:" + ("L" if L_mode else "S"), "type:" + types]

    # ---------------- (linear / local), same-step convention, T = 0
    g1, g2, a, b = spec["g1"], spec["g2"], spec["a"], spec["b"]
    comb = [[a * g1[i][d] + b * g2[i][d] for d in range(3)] for i in range(n)]
    comb_out = [[comb[i][d] + (0.0 if i in mine else 7.5 * (d + 1) * (1 if i % 2 else -1)) for d in range(3)] for i in range(n)]
    lines = [gen.config_block(cfg(spec, linear=False)), gen.pos_line(pos)]
    for F in (g1, g2, comb, comb_out):
        lines += [fsys_line(F), "step"]
    r2, case2 = run(lines, tf=1, T=0.0)
    if r2.crashed or r2.of("config")[0]["rc"] != 0:
        return Outcome(False, msg="linearity run failed %s" % r2.stderr[-300:], sig="gen_invalid", case_text=case2)
    fts = [s["cv"][0]["ft"][0] for s in r2.of("step")]
    scale = max(1.0, abs(fts[0]), abs(fts[1]))
    if abs(fts[2] - (a * fts[0] + b * fts[1])) > 1e-9 * scale * max(1.0, abs(a) + abs(b)):
        return Outcome(False, msg="total force not linear in the atomic forces: ft(a g1+b g2)=%r, a ft(g1)+b ft(g2)=%r [types %s]" %
                       (fts[2], a * fts[0] + b * fts[1], types), sig="linearity", case_text=case2)
    if abs(fts[3] - fts[2]) > 1e-9 * scale:
        return Outcome(False, msg="forces on atoms outside the variable's groups change the total force: %r vs %r [types %s]" %
                       (fts[3], fts[2], types), sig="locality", case_text=case2)
    strata.append("linear")

    # ---------------- (jacobian) ft(T) - ft(0) independent of forces, proportional to T, closed form, hidden on request
    if jac is not None:
        lines = [gen.config_block(cfg(spec, linear=False)), gen.pos_line(pos), fsys_line(g1), "step", fsys_line(g2), "step"]
        rT, caseT = run(lines, tf=1, T=300.0)
        r2T, _ = run(lines, tf=1, T=600.0)
        if rT.crashed or r2T.crashed:
            return Outcome(False, msg="crash in Jacobian run", sig="crash", case_text=caseT)
        d1 = rT.of("step")[0]["cv"][0]["ft"][0] - fts[0]
        d2 = rT.of("step")[1]["cv"][0]["ft"][0] - fts[1]
        d600 = r2T.of("step")[0]["cv"][0]["ft"][0] - fts[0]
        expj = KB * 300.0 * jac
        tol = 1e-8 * max(1.0, abs(expj), scale)
        if abs(d1 - expj) > tol or abs(d2 - expj) > tol or abs(d600 - 2 * expj) > 2 * tol:
            return Outcome(False, msg="Jacobian term: ft(300K)-ft(0) = %r / %r (two force fields), ft(600K)-ft(0) = %r, documented k_B T dJ = %r [types %s]" %
                           (d1, d2, d600, expj, types), sig="jacobian", case_text=caseT)
        strata.append("jacobian")
        if spec["hide"]:
            linesh = [gen.config_block(cfg(spec, linear=False, extra_cv={"subtractAppliedForce": "on"}, hide=True)), gen.pos_line(pos),
                      fsys_line(g1), "step"]
            rh, caseh = run(linesh, tf=1, T=300.0)
            if rh.crashed:
                return Outcome(False, msg="crash with hideJacobian", sig="crash", case_text=caseh)
            if rh.of("config")[0]["rc"] == 0:
                fh = rh.of("step")[0]["cv"][0]["ft"][0]
                if abs(fh - fts[0]) > tol:
                    return Outcome(False, msg="hideJacobian + subtractAppliedForce: total force %r, expected the T=0 value %r [types %s]" %
                                   (fh, fts[0], types), sig="hide_jacobian", case_text=caseh)
                strata.append("hide")

    # ---------------- hideJacobian alone (no subtractAppliedForce), late convention: Colvars then applies the compensating force
    # itself, and what it reports at the next step carries no temperature-dependent term ("hidden on request")
    if jac is not None and spec["hide"]:
        linesh = [gen.config_block(cfg(spec, hide=True)), gen.pos_line(pos), fsys_line(g1), "step", gen.pos_line(pos), "step"]
        rh0, caseh0 = run(linesh, tf=2, T=0.0)
        rh3, caseh3 = run(linesh, tf=2, T=300.0)
        if rh0.crashed or rh3.crashed:
            return Outcome(False, msg="crash with hideJacobian", sig="crash", case_text=caseh3)
        if rh0.of("config")[0]["rc"] == 0 and rh3.of("config")[0]["rc"] == 0:
            f0 = rh0.of("step")[1]["cv"][0]["ft"][0]
            f3 = rh3.of("step")[1]["cv"][0]["ft"][0]
            if abs(f3 - f0) > 1e-8 * max(1.0, abs(f0), abs(KB * 300.0 * jac)):
                return Outcome(False, msg="hideJacobian (late convention, applied forces fed back): total force %r at 300 K, %r at 0 K: a "
                               "temperature-dependent term of %r is left (k_B T dJ = %r) [types %s]" % (f3, f0, f3 - f0, KB * 300.0 * jac, types),
                               sig="hide_jacobian_alone", case_text=caseh3)
            if jac != 0.0:
                strata.append("hide_alone")

    # ---------------- (timing / subtractAppliedForce), late convention
    moved = [[pos[i][d] + spec["move"][i][d] for d in range(3)] for i in range(n)]
    extra = {"subtractAppliedForce": "on"} if spec["sub"] else None
    base = [gen.config_block(cfg(spec, extra_cv=extra)), gen.pos_line(pos), fsys_line(g1), "step"]
    rA, caseA = run(base + [gen.pos_line(pos), "step"], tf=2, T=0.0)
    rB, caseB = run(base + [gen.pos_line(moved), "step"], tf=2, T=0.0)
    if rA.crashed or rB.crashed or rA.of("config")[0]["rc"] != 0:
        return Outcome(False, msg="timing run failed: %s" % (rA.of("config")[:1],), sig="gen_invalid", case_text=caseB)
    fA = rA.of("step")[1]["cv"][0]["ft"][0]
    fB = rB.of("step")[1]["cv"][0]["ft"][0]
    f_applied = rA.of("step")[0]["cv"][0]["f"][0]
    if abs(fA - fB) > 1e-9 * max(1.0, abs(fA)):
        return Outcome(False, msg="late convention: total force reported at t+1 depends on the geometry of t+1 (%r vs %r) [types %s]" %
                       (fA, fB, types), sig="timing", case_text=caseB)
    # forces of step t: system g1 + applied (f_applied along the gradient): expected f_applied + ft_S(g1) (or ft_S(g1) when subtracted)
    expL = fts[0] + (0.0 if spec["sub"] else f_applied)
    if abs(fA - expL) > 1e-8 * max(1.0, abs(expL)):
        return Outcome(False, msg="late convention%s: total force %r, expected projection of the system forces %r %s the applied force %r [types %s]" %
                       (" with subtractAppliedForce" if spec["sub"] else "", fA, fts[0], "without" if spec["sub"] else "plus", f_applied, types),
                       sig="timing_subtract" if spec["sub"] else "timing_sum", case_text=caseA)
    strata.append("timing:" + ("sub" if spec["sub"] else "nosub"))
    multi = any(len(g.get("atoms", [])) >= 2 for c in spec["cv"]["comps"] for _, g in c["comp"]["groups"])
    return Outcome(True, nontrivial=True, cls=(types, "L" if L_mode else "S", "T%d" % int(spec["T"]), "multi" if multi else "single"),
                   strata=strata, case_text=case)


def view(spec):
    return {"natoms": spec["sys"]["natoms"], "variable": gen.render_colvar(spec["cv"]), "tf_mode": spec["tf"], "T": spec["T"], "k": spec["k"]}


PARTS = {"totalforce": {"strategy": spec_tf, "check": check_tf, "examples": {"quick": 4500, "thorough": 15000}, "sample": view}}


# ------------------------------------------------------------------------------------------------------------
# histories in the late convention: the applied force that is subtracted (or included) is the one of the step at which
# the forces acted, also when a bias switches off and on again

@st.composite
def spec_hist(draw, tier):
    from lib import cvz
    T = draw(st.integers(4, 12))
    # walls at 1 and 2: values inside (no force), below and above
    xs = [draw(st.sampled_from([0.25, 0.5, 0.75, 1.25, 1.5, 1.75, 2.25, 2.5, 3.0])) for _ in range(T)]
    return {"xs": xs, "fs": [rnd(draw(fl(-4, 4)), 2) for _ in range(T)], "sub": draw(st.booleans()), "k": rnd(draw(fl(0.5, 8)), 2),
            "tsf": 1, "second": draw(st.booleans())}   # time-step factors are C08's subject


def check_hist(spec, ctx):
    from lib import cvz
    nat = 2
    extra = {"outputTotalForce": "on", "outputAppliedForce": "on"}
    if spec["sub"]:
        extra["subtractAppliedForce"] = "on"
    cfg = cvz.zvar("z0", 1, -4, 8, 0.5, extra=extra)
    cfg += "\nharmonicWalls {\n  name w\n  colvars z0\n  lowerWalls 1.0\n  upperWalls 2.0\n  forceConstant %s\n%s}\n" % (
        fmt(spec["k"]), "  timeStepFactor %d\n" % spec["tsf"] if spec["tsf"] != 1 else "")
    if spec["second"]:
        cfg += "linear {\n  name l\n  colvars z0\n  centers 0\n  forceConstant 0.25\n}\n"
    L = cvz.header(nat, 2) + ["config <<END\n%s\nEND" % cfg]
    for x, f in zip(spec["xs"], spec["fs"]):
        L += [cvz.pos_line_z([x], nat), cvz.fsys_line_z([f], nat), "step"]
    case = "\n".join(L) + "\n"
    r = run_case(case)
    if r.crashed or r.of("config")[0]["rc"] != 0:
        return Outcome(False, msg="crash/rejected %s %s" % (r.stderr[-300:], r.of("config")[:1]), sig="gen_invalid", case_text=case)
    steps = r.of("step")
    nz = 0
    zero_after = 0
    for t in range(1, len(steps)):
        if steps[t]["errbits"]:
            return Outcome(False, msg="step error %s" % steps[t]["errs"], sig="step_error", case_text=case)
        if not steps[t]["cv"][0]["active"]:
            continue      # only a sleeping bias (timeStepFactor) uses the variable at this step: it is not computed
        fa_prev = steps[t - 1]["cv"][0]["f"][0]
        ft = steps[t]["cv"][0]["ft"][0]
        exp = spec["fs"][t - 1] + (0.0 if spec["sub"] else fa_prev)
        if fa_prev != 0.0:
            nz += 1
        elif nz:
            zero_after += 1
        if spec["sub"] and spec["fs"][t - 1] + fa_prev == 0.0:
            continue      # a total force of exactly zero is taken by the code as "not available" and nothing is subtracted from it
        if abs(ft - exp) > 1e-10 * max(1.0, abs(exp)):
            return Outcome(False, msg="late convention%s, step %d: reported total force %r; the forces that acted at step %d were system %r and applied %r, "
                           "so %r is expected" % (" with subtractAppliedForce" if spec["sub"] else "", steps[t]["it"], ft, steps[t - 1]["it"],
                                                  spec["fs"][t - 1], fa_prev, exp), sig="history_subtract" if spec["sub"] else "history_sum", case_text=case)
    return Outcome(True, nontrivial=nz >= 1 and zero_after >= 1, cls=("hist", "sub" if spec["sub"] else "nosub", "tsf%d" % spec["tsf"]),
                   strata=["hist", "hist:" + ("sub" if spec["sub"] else "nosub")] + (["hist:switch_off"] if zero_after else []), case_text=case)


PARTS["history"] = {"strategy": spec_hist, "check": check_hist, "examples": {"quick": 6000, "thorough": 20000},
                    "sample": lambda s: s}



# --------------------------------------------------------------------------------------------
# alchemical variable: the "atoms" are the engine's coupling parameter; Colvars drives lambda with an extended-Lagrangian
# coordinate, the engine returns dE/dlambda.  The force that acts on the coordinate at step t is (bias force) - dE/dlambda(t).

@st.composite
def spec_alch(draw, tier):
    T = draw(st.integers(4, 14))
    return {"T": T, "lam0": rnd(draw(fl(0.1, 0.9)), 3), "g": [rnd(draw(fl(-30, 30)), 2) for _ in range(T + 1)],
            "mass": draw(st.sampled_from([500.0, 2000.0, 10000.0])), "k": rnd(draw(fl(0.0, 50.0)), 2), "c": rnd(draw(fl(0.0, 1.0)), 2),
            "sub": draw(st.booleans()), "tf": draw(st.sampled_from([1, 2])), "bias": draw(st.sampled_from(["harmonic", "harmonic", "linear", "none"])),
            "second_bias": draw(st.booleans())}


def check_alch(spec, ctx):
    extra = {"extendedLagrangian": "on", "extendedMass": fmt(spec["mass"]), "extendedLangevinDamping": "0", "outputTotalForce": "on",
             "outputAppliedForce": "on"}
    if spec["sub"]:
        extra["subtractAppliedForce"] = "on"
    cfg = "colvar {\n  name lam\n  width 1.0\n%s  alchLambda {\n  }\n}\n" % "".join("  %s %s\n" % kv for kv in extra.items())
    if spec["bias"] == "harmonic":
        cfg += "harmonic {\n  name h\n  colvars lam\n  centers %s\n  forceConstant %s\n}\n" % (fmt(spec["c"]), fmt(spec["k"]))
    elif spec["bias"] == "linear":
        cfg += "linear {\n  name l\n  colvars lam\n  centers 0\n  forceConstant %s\n}\n" % fmt(spec["k"])
    if spec["second_bias"]:
        cfg += "linear {\n  name l2\n  colvars lam\n  centers 0\n  forceConstant 0.75\n}\n"
    L = ["natoms 1", "tf_mode %d" % spec["tf"], "temperature 0x0p+0", "alch %s %s 0" % (fnum(spec["lam0"]), fnum(spec["g"][0])), "config <<END\n%s\nEND" % cfg]
    for t in range(spec["T"] + 1):
        L += ["alchd %s 0" % fnum(spec["g"][t]), "pos 0x0p+0 0x0p+0 0x0p+0", "step"]
    case = "\n".join(L) + "\n"
    r = run_case(case)
    if r.crashed:
        return Outcome(False, msg="crash %s" % r.stderr[-400:], sig="crash", case_text=case)
    if r.of("config")[0]["rc"] != 0:
        return Outcome(False, msg="configuration rejected: %s" % r.of("config")[0]["errs"], sig="gen_invalid", case_text=case)
    steps = r.of("step")
    if any(s["errbits"] for s in steps):
        return Outcome(False, msg="step error %s" % [s["errs"] for s in steps if s["errbits"]][:1], sig="step_error", case_text=case)
    nz = 0
    for t in range(len(steps)):
        cur = steps[t]["cv"][0]
        if cur["f"][0] != 0.0:
            nz += 1
        # the back-end returns dE/dlambda of the configuration of this step, without Colvars' own force on the coordinate (which it
        # never sees): the measurement is a system force of the same step under either timing convention, with or without
        # subtractAppliedForce, and linear in what the engine returns
        exp = -spec["g"][t]
        ft = cur["ft"][0]
        if abs(ft - exp) > 1e-12 * max(1.0, abs(exp)):
            return Outcome(False, msg="alchemical variable%s, step %d: reported total force %r; the engine returned dE/dlambda = %r for this step "
                           "(Colvars applied %r to the coordinate), so %r is expected" % (
                               " with subtractAppliedForce" if spec["sub"] else "", steps[t]["it"], ft, spec["g"][t], cur["f"][0], exp),
                           sig="alch_total_force", case_text=case)
        # the applied force moves lambda: the engine receives the integrated coordinate
        if t and abs(steps[t - 1]["alchL"] - cur["x"][0]) > 1e-12:
            return Outcome(False, msg="step %d: the engine was sent lambda = %r but the variable reports %r" % (steps[t]["it"], steps[t - 1]["alchL"], cur["x"][0]),
                           sig="alch_sent", case_text=case)
    # dynamics: x(t+1) - 2 x(t) + x(t-1) = dt^2 f(t) / m  (no friction), f = bias force - dE/dlambda
    xs = [s["cv"][0]["x"][0] for s in steps]
    for t in range(1, len(steps) - 1):
        f = steps[t]["cv"][0]["f"][0] - spec["g"][t]
        acc = (xs[t + 1] - 2 * xs[t] + xs[t - 1])
        exp = f / spec["mass"]            # dt = 1
        if abs(acc - exp) > 1e-9 * max(abs(exp), 1e-3):
            return Outcome(False, msg="step %d: lambda accelerates by %r, the force that acted (bias %r - dE/dlambda %r) over the mass gives %r" % (
                steps[t]["it"], acc, steps[t]["cv"][0]["f"][0], spec["g"][t], exp), sig="alch_dynamics", case_text=case)
    return Outcome(True, nontrivial=nz >= 2 and any(g != 0.0 for g in spec["g"]), cls=("alch", spec["bias"], "sub" if spec["sub"] else "nosub", "tf%d" % spec["tf"]),
                   strata=["alch", "alch:" + ("sub" if spec["sub"] else "nosub"), "alch:" + spec["bias"]], case_text=case)


PARTS["alch"] = {"strategy": spec_alch, "check": check_alch, "examples": {"quick": 2000, "thorough": 20000}, "sample": lambda s: s}
REQUIRED_STRATA = {"all": ["history:hist:sub", "history:hist:nosub", "history:hist:switch_off", "totalforce:type:eigenvector", "totalforce:hide_alone",
                           "alch:alch:sub", "alch:alch:nosub", "alch:alch:harmonic", "alch:alch:linear"]}
